// Native confirmation for C19 (run only when the solver finds a reachable write into a static-storage object): n threads,
// each driving its own Encoder / Decoder / Status / payload builders and the static TECMP decoder on the same workload,
// under ThreadSanitizer; every thread's result digest must equal the single-threaded digest.
#include <asam_cmp/can_payload.h>
#include <asam_cmp/capture_module_payload.h>
#include <asam_cmp/decoder.h>
#include <asam_cmp/encoder.h>
#include <asam_cmp/interface_payload.h>
#include <asam_cmp/lin_payload.h>
#include <asam_cmp/status.h>
#include <atomic>
#include <cstdio>
#include <string>
#include <thread>
#include <vector>
using namespace ASAM::CMP;

static uint64_t fnv(uint64_t h, const uint8_t* p, size_t n)
{
    for (size_t i = 0; i < n; ++i)
        h = (h ^ p[i]) * 1099511628211ULL;
    return h;
}
static uint64_t digestPacket(uint64_t h, const Packet& p)
{
    const uint64_t f[] = {p.getVersion(), p.getDeviceId(), p.getStreamId(), p.getTimestamp(), p.getInterfaceId(), p.getVendorId(), p.getCommonFlags(), p.isValid(), p.getPayloadLength(),
                          p.getPayload().getType().getType()};
    h = fnv(h, reinterpret_cast<const uint8_t*>(f), sizeof f);
    return fnv(h, p.getPayload().getRawPayload(), p.getPayloadLength());
}

static uint64_t workload(unsigned salt)
{
    uint64_t h = 1469598103934665603ULL;
    // encode a mixed batch (aggregation, segmentation, status), decode it again
    std::vector<Packet> batch;
    for (unsigned i = 0; i < 5; ++i)
    {
        std::vector<uint8_t> data(i == 2 ? 150 : 8 + i);
        for (size_t k = 0; k < data.size(); ++k)
            data[k] = static_cast<uint8_t>(k * 7 + i + salt);
        Packet p;
        if (i == 3)
        {
            InterfacePayload ip;
            ip.setInterfaceId(77 + salt);
            const uint8_t ids[3] = {1, 2, 3};
            ip.setData(ids, 3, data.data(), 4);
            p.setPayload(ip);
        }
        else
        {
            CanPayload cp;
            cp.setId(0x123 + i);
            cp.setData(data.data(), static_cast<uint8_t>(i == 2 ? 8 : data.size()));
            if (i == 2)
                p.setPayload(Payload(PayloadType(CmpHeader::MessageType::data, 0xFE), data.data(), data.size()));
            else
                p.setPayload(cp);
        }
        p.setTimestamp(1000 + i);
        p.setInterfaceId(5 + i);
        batch.push_back(p);
    }
    Encoder enc;
    enc.setDeviceId(static_cast<uint16_t>(3 + salt));
    enc.setStreamId(9);
    Decoder dec;
    Status status;
    for (int round = 0; round < 3; ++round)
    {
        auto frames = enc.encode(batch.begin(), batch.end(), {64, 100});
        for (auto& f : frames)
        {
            h = fnv(h, f.data(), f.size());
            for (auto& pk : dec.decode(f.data(), f.size()))
            {
                h = digestPacket(h, *pk);
                status.update(*pk);
            }
        }
    }
    // capture-module status through the status tracker
    CaptureModulePayload cm;
    cm.setData("desc", "sn-" + std::to_string(salt), "hw" + std::to_string(salt % 7), "sw", {1, 2, static_cast<uint8_t>(salt)});
    Packet cp;
    cp.setPayload(cm);
    cp.setDeviceId(static_cast<uint16_t>(3 + salt));
    status.update(cp);
    h = fnv(h, cm.getRawPayload(), cm.getLength());
    h ^= status.getDeviceStatusCount() * 31 + (status.getDeviceStatusCount() ? status.getDeviceStatus(0).getInterfaceStatusCount() : 0);
    // TECMP: CAN data, LIN data, bus status, capture-module status
    auto tecmp = [&](uint8_t msgType, uint16_t dataType, std::vector<uint8_t> payload) {
        std::vector<uint8_t> f(28 + payload.size(), 0);
        f[1] = static_cast<uint8_t>(0x20 + salt);
        f[4] = 3;
        f[5] = msgType;
        f[6] = static_cast<uint8_t>(dataType >> 8);
        f[7] = static_cast<uint8_t>(dataType);
        f[15] = 4;
        f[23] = 99;
        f[24] = static_cast<uint8_t>(payload.size() >> 8);
        f[25] = static_cast<uint8_t>(payload.size());
        std::copy(payload.begin(), payload.end(), f.begin() + 28);
        Decoder d;
        for (auto& pk : d.decode(f.data(), f.size()))
            h = digestPacket(h, *pk);
    };
    tecmp(3, 2, {0, 0, 1, 0x23, 4, 9, 8, 7, 6, 0, 0, 0});
    tecmp(3, 4, {0x11, 3, 5, 6, 7, 0x55});
    std::vector<uint8_t> bus(12 + 24);
    for (size_t k = 0; k < bus.size(); ++k)
        bus[k] = static_cast<uint8_t>(k + salt);
    tecmp(2, 0, bus);
    std::vector<uint8_t> cms(36);
    for (size_t k = 0; k < cms.size(); ++k)
        cms[k] = static_cast<uint8_t>(3 * k + salt);
    tecmp(1, 0, cms);
    return h;
}

int main()
{
    // The concurrent phase runs first and every iteration brings data no thread has processed before (so that insert /
    // first-use paths of any shared cache run concurrently, not only its read path); the single-threaded reference
    // digests are computed afterwards.
    const unsigned nthreads = 4, iters = 48;
    static uint64_t got[4][48];
    std::vector<std::thread> th;
    for (unsigned t = 0; t < nthreads; ++t)
        th.emplace_back([&, t] {
            for (unsigned i = 0; i < iters; ++i)
                got[t][i] = workload(t + nthreads * i);
        });
    for (auto& x : th)
        x.join();
    int bad = 0;
    for (unsigned t = 0; t < nthreads; ++t)
        for (unsigned i = 0; i < iters; ++i)
            if (workload(t + nthreads * i) != got[t][i])
                ++bad;
    // a fresh process-wide history must not matter either: same inputs again, now after everything has been seen once
    for (unsigned t = 0; t < nthreads; ++t)
        if (workload(t) != got[t][0])
            ++bad;
    if (bad)
    {
        printf("C19-NATIVE: %d result digests differ from the single-threaded digests\n", bad);
        return 1;
    }
    printf("C19-NATIVE: all digests equal\n");
    return 0;
}
