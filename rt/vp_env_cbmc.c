/* Appended to the generated C for CBMC: the input array and its cursor. */
#include "vp_cdefs.h"
#ifndef VP_IN_MAX
#define VP_IN_MAX 256
#endif
unsigned char vp_in[VP_IN_MAX];
unsigned long vp_in_pos;
unsigned char nondet_vp_in_byte(void);
void vp_init(void)
{
    for (unsigned long i = 0; i < VP_IN_MAX; ++i)
        vp_in[i] = nondet_vp_in_byte();
    vp_in_pos = 0;
}
void vp_bytes(unsigned char *p, unsigned long n)
{
    __CPROVER_assert(vp_in_pos + n <= VP_IN_MAX, "harness input budget VP_IN_MAX");
    __CPROVER_assume(vp_in_pos + n <= VP_IN_MAX);
    if (n)
        memcpy(p, vp_in + vp_in_pos, n);
    vp_in_pos += n;
}
unsigned char vp_u8(void) { unsigned char v; vp_bytes(&v, 1); return v; }
unsigned short vp_u16(void) { unsigned char b[2]; vp_bytes(b, 2); return (unsigned short)((b[0] << 8) | b[1]); }
unsigned int vp_u32(void) { unsigned char b[4]; vp_bytes(b, 4); return ((unsigned int)b[0] << 24) | ((unsigned int)b[1] << 16) | ((unsigned int)b[2] << 8) | b[3]; }
unsigned long vp_u64(void) { unsigned long hi = vp_u32(); unsigned long lo = vp_u32(); return (hi << 32) | lo; }
void vp_set_fill(unsigned int pattern) { (void)pattern; }
void vp_note(unsigned char *label, unsigned long v) { (void)label; (void)v; }
