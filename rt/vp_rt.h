/* C prelude of every ll2c output (CBMC and native builds of the generated C). */
#include <stddef.h>
void *malloc(size_t);
void free(void *);
void *memcpy(void *, const void *, size_t);
void *memmove(void *, const void *, size_t);
void *memset(void *, int, size_t);
unsigned long nondet_vp_undef_u64(void);
double nondet_vp_undef_double(void);
#if defined(__CPROVER__) || defined(VP_CBMC_BUILD)
#define VP_ATOMIC_BEGIN __CPROVER_atomic_begin();
#define VP_ATOMIC_END __CPROVER_atomic_end();
#define vp_unreachable() do { __CPROVER_assert(0, "llvm unreachable reached"); __CPROVER_assume(0); } while (0)
#define vp_trap() do { __CPROVER_assert(0, "llvm.trap reached"); __CPROVER_assume(0); } while (0)
#define vp_llvm_assume(c) __CPROVER_assert((c), "llvm.assume holds")
#define VP_ASSERT(c, m) __CPROVER_assert((c), m)
#define VP_ASSUME(c) __CPROVER_assume(c)
#define VP_REACH(m) __CPROVER_assert(0, m)
#define VP_SAME_OBJECT(p, q) __CPROVER_same_object((const void *)(p), (const void *)(q))
#else
#include <stdio.h>
#include <stdlib.h>
#define VP_ATOMIC_BEGIN
#define VP_ATOMIC_END
#define vp_unreachable() do { fprintf(stderr, "unreachable\n"); abort(); } while (0)
#define vp_trap() abort()
#define vp_llvm_assume(c) ((void)0)
void vp_native_assert(int c, const char *m);
void vp_native_assume(int c);
#define VP_ASSERT(c, m) vp_native_assert((c), m)
#define VP_ASSUME(c) vp_native_assume(c)
#define VP_REACH(m) ((void)0)
#define VP_SAME_OBJECT(p, q) 0
#endif
/* LLVM computes pointer differences on integers (always defined, also speculatively for unrelated pointers); the C pointer
   subtraction is used only where it is defined (same object), so that CBMC evaluates it on offsets */
#if defined(__CPROVER__) || defined(VP_CBMC_BUILD)
#define VP_PTRDIFF(a, b) ((const char *)(a) == (const char *)(b) ? 0L : __CPROVER_same_object((const char *)(a), (const char *)(b)) ? (long)((const char *)(a) - (const char *)(b)) : (long)((unsigned long)(a) - (unsigned long)(b)))
#else
#define VP_PTRDIFF(a, b) ((long)((unsigned long)(a) - (unsigned long)(b)))
#endif
/* zero-length copies are no-ops whatever the pointers are (memcpy(dst, NULL, 0) is what vector/optional code does for
   empty ranges; it is formally undefined in ISO C but not a memory-safety event) */
#if defined(VP_MEM_PREFIX) && (defined(__CPROVER__) || defined(VP_CBMC_BUILD))
/* "huge frame" mode (C07 h_enc_big at 64 KiB): CBMC's array copy costs O(n) recursion depth and superlinear memory, so a copy
   of n bytes checks that both whole regions are accessible and then transfers only the first VP_MEM_PREFIX bytes; the rest
   of the destination keeps its previous (for fresh allocations: nondeterministic) contents. Sound for assertions about sizes,
   headers and anything within the prefix; harnesses using it assert nothing else. */
#define vp_memcpy(d, s, n) do { unsigned long vp_n_ = (n); if (vp_n_) { unsigned char *vp_d_ = (unsigned char *)(d); const unsigned char *vp_s_ = (const unsigned char *)(s); \
    __CPROVER_assert(__CPROVER_r_ok(vp_s_, vp_n_), "memcpy source region readable"); __CPROVER_assert(__CPROVER_w_ok(vp_d_, vp_n_), "memcpy destination region writeable"); \
    for (unsigned long vp_i_ = 0; vp_i_ < VP_MEM_PREFIX; ++vp_i_) if (vp_i_ < vp_n_) vp_d_[vp_i_] = vp_s_[vp_i_]; } } while (0)
#define vp_memmove(d, s, n) do { unsigned long vp_n_ = (n); if (vp_n_) { unsigned char *vp_d_ = (unsigned char *)(d); const unsigned char *vp_s_ = (const unsigned char *)(s); unsigned char vp_t_[VP_MEM_PREFIX]; \
    __CPROVER_assert(__CPROVER_r_ok(vp_s_, vp_n_), "memmove source region readable"); __CPROVER_assert(__CPROVER_w_ok(vp_d_, vp_n_), "memmove destination region writeable"); \
    for (unsigned long vp_i_ = 0; vp_i_ < VP_MEM_PREFIX; ++vp_i_) if (vp_i_ < vp_n_) vp_t_[vp_i_] = vp_s_[vp_i_]; \
    for (unsigned long vp_i_ = 0; vp_i_ < VP_MEM_PREFIX; ++vp_i_) if (vp_i_ < vp_n_) vp_d_[vp_i_] = vp_t_[vp_i_]; } } while (0)
#define vp_memset(d, c, n) do { unsigned long vp_n_ = (n); if (vp_n_) { unsigned char *vp_d_ = (unsigned char *)(d); \
    __CPROVER_assert(__CPROVER_w_ok(vp_d_, vp_n_), "memset destination region writeable"); \
    for (unsigned long vp_i_ = 0; vp_i_ < VP_MEM_PREFIX; ++vp_i_) if (vp_i_ < vp_n_) vp_d_[vp_i_] = (unsigned char)(c); } } while (0)
#else
#define vp_memcpy(d, s, n) do { unsigned long vp_n_ = (n); if (vp_n_) memcpy((d), (s), vp_n_); } while (0)
#define vp_memmove(d, s, n) do { unsigned long vp_n_ = (n); if (vp_n_) memmove((d), (s), vp_n_); } while (0)
#define vp_memset(d, c, n) do { unsigned long vp_n_ = (n); if (vp_n_) memset((d), (c), vp_n_); } while (0)
#endif
