// Environment models (DESIGN.md 1.3). Compiled to IR and linked into every CBMC module: only code
// that lives outside /repo and outside the libstdc++ headers is modelled here.
#include <cstddef>
#include <cstdint>
#include <cstdlib>
#include <new>
#include <utility>
#include <unordered_set>
#ifdef VP_STRVARIANT
#include <string>
// every member of std::string gets IR (explicit instantiation definition)
template class std::__cxx11::basic_string<char>;
#endif
#include "verif.h"

// operator new/delete -> malloc/free; allocation never fails (out-of-memory is outside every claim).
void* operator new(std::size_t n)
{
    void* p = malloc(n);
    vp_assume(p != nullptr);
    return p;
}
void* operator new[](std::size_t n)
{
    void* p = malloc(n);
    vp_assume(p != nullptr);
    return p;
}
void operator delete(void* p) noexcept
{
    free(p);
}
void operator delete(void* p, std::size_t) noexcept
{
    free(p);
}
void operator delete[](void* p) noexcept
{
    free(p);
}
void operator delete[](void* p, std::size_t) noexcept
{
    free(p);
}

namespace std
{
void __throw_length_error(const char*)
{
    vp_assert(false, "std::__throw_length_error reached");
    vp_assume(false);
    __builtin_unreachable();
}
void __throw_bad_alloc()
{
    vp_assert(false, "std::__throw_bad_alloc reached");
    vp_assume(false);
    __builtin_unreachable();
}
void __throw_bad_array_new_length()
{
    vp_assert(false, "std::__throw_bad_array_new_length reached");
    vp_assume(false);
    __builtin_unreachable();
}
void __throw_out_of_range_fmt(const char*, ...)
{
    vp_assert(false, "std::__throw_out_of_range_fmt reached");
    vp_assume(false);
    __builtin_unreachable();
}
void __throw_logic_error(const char*)
{
    vp_assert(false, "std::__throw_logic_error reached");
    vp_assume(false);
    __builtin_unreachable();
}
void __throw_bad_function_call()
{
    vp_assert(false, "std::__throw_bad_function_call reached");
    vp_assume(false);
    __builtin_unreachable();
}
void __throw_bad_weak_ptr()
{
    vp_assert(false, "std::__throw_bad_weak_ptr reached");
    vp_assume(false);
    __builtin_unreachable();
}

namespace __detail
{
    // lives in libstdc++.so: "never rehash" - a hash table that keeps its bucket array still
    // satisfies the container contract.
    std::pair<bool, std::size_t> _Prime_rehash_policy::_M_need_rehash(std::size_t, std::size_t, std::size_t) const
    {
        return {false, 0};
    }
    std::size_t _Prime_rehash_policy::_M_next_bkt(std::size_t n) const
    {
        return n < 13 ? 13 : n;
    }
}
}

extern "C" void __cxa_pure_virtual()
{
    vp_assert(false, "pure virtual call");
    vp_assume(false);
}

extern "C" void* memchr(const void* s, int c, size_t n)
{
    const unsigned char* p = static_cast<const unsigned char*>(s);
    for (size_t i = 0; i < n; ++i)
        if (p[i] == static_cast<unsigned char>(c))
            return const_cast<unsigned char*>(p + i);
    return nullptr;
}
