/* C-level shape constants (Job.cdefs): defined here from -D macros, after translation, so that one translated harness
   serves many shapes. Included by the CBMC environment file and by the native replay main.
   VP_CDEF_OPS: flattened table of VP_CDEF_NSEQ operation sequences, 8 slots each; VP_CDEF_LENS: their lengths. */
#ifdef VP_CDEF_OPS
#ifdef __cplusplus
extern "C" {
#endif
unsigned int vp_op(unsigned int k)
{
    static const unsigned int ops[8 * VP_CDEF_NSEQ] = {VP_CDEF_OPS};
    return k < 8 * VP_CDEF_NSEQ ? ops[k] : 0;
}
unsigned int vp_nops(unsigned int seq)
{
    static const unsigned int lens[VP_CDEF_NSEQ] = {VP_CDEF_LENS};
    return seq < VP_CDEF_NSEQ ? lens[seq] : 0;
}
unsigned int vp_nseq(void)
{
    return VP_CDEF_NSEQ;
}
#ifdef __cplusplus
}
#endif
#elif defined(VP_NATIVE_MAIN)
/* native replay of a harness entry that takes no operation table: the table accessors only have to link */
extern "C" unsigned int vp_op(unsigned int) { return 0; }
extern "C" unsigned int vp_nops(unsigned int) { return 0; }
extern "C" unsigned int vp_nseq(void) { return 0; }
#endif
