// Native replay runtime: vp_* implemented over a recorded input file (env VP_REPLAY_INPUT, raw bytes).
#include <cstdio>
#include <cstdlib>
#include <cstring>
#include <new>
#include "verif.h"

static unsigned char* g_in = nullptr;
static size_t g_len = 0, g_pos = 0;
static int g_failed = 0;
static int g_fill = -1;

extern "C"
{
    void vp_init(void)
    {
        const char* path = getenv("VP_REPLAY_INPUT");
        g_pos = 0;
        if (g_in || !path)
            return;
        FILE* f = fopen(path, "rb");
        if (!f)
        {
            fprintf(stderr, "VP_REPLAY: cannot open %s\n", path);
            exit(4);
        }
        fseek(f, 0, SEEK_END);
        g_len = static_cast<size_t>(ftell(f));
        fseek(f, 0, SEEK_SET);
        g_in = static_cast<unsigned char*>(malloc(g_len + 1));
        if (fread(g_in, 1, g_len, f) != g_len)
            exit(4);
        fclose(f);
    }
    void vp_bytes(void* p, size_t n)
    {
        unsigned char* d = static_cast<unsigned char*>(p);
        for (size_t i = 0; i < n; ++i)
            d[i] = (g_pos + i < g_len) ? g_in[g_pos + i] : 0;
        g_pos += n;
    }
    uint8_t vp_u8(void)
    {
        uint8_t v;
        vp_bytes(&v, 1);
        return v;
    }
    uint16_t vp_u16(void)
    {
        uint8_t b[2];
        vp_bytes(b, 2);
        return static_cast<uint16_t>((b[0] << 8) | b[1]);
    }
    uint32_t vp_u32(void)
    {
        uint8_t b[4];
        vp_bytes(b, 4);
        return (uint32_t(b[0]) << 24) | (uint32_t(b[1]) << 16) | (uint32_t(b[2]) << 8) | b[3];
    }
    uint64_t vp_u64(void)
    {
        uint64_t hi = vp_u32();
        uint64_t lo = vp_u32();
        return (hi << 32) | lo;
    }
    void vp_assume(bool c)
    {
        if (!c)
        {
            printf("VP_ASSUME_VIOLATED\n");
            fflush(stdout);
            _Exit(3);
        }
    }
    void vp_assert(bool c, const char* label)
    {
        if (!c)
        {
            printf("VP_ASSERT_FAILED: %s\n", label);
            fflush(stdout);
            g_failed = 1;
        }
    }
    void vp_reach(const char* label)
    {
        printf("VP_REACHED: %s\n", label);
        fflush(stdout);
    }
    void vp_set_fill(int pattern)
    {
        g_fill = pattern;
    }
    void vp_note(const char* label, uint64_t v)
    {
        printf("VP_NOTE: %s = %llu\n", label, static_cast<unsigned long long>(v));
    }
    int vp_replay_failed(void)
    {
        return g_failed;
    }
}

// fresh heap memory carries a chosen fill pattern (C20: two runs with different patterns)
void* operator new(std::size_t n)
{
    void* p = malloc(n ? n : 1);
    if (!p)
        abort();
    if (g_fill >= 0)
        memset(p, g_fill, n);
    return p;
}
void* operator new[](std::size_t n)
{
    return operator new(n);
}
void operator delete(void* p) noexcept
{
    free(p);
}
void operator delete(void* p, std::size_t) noexcept
{
    free(p);
}
void operator delete[](void* p) noexcept
{
    free(p);
}
void operator delete[](void* p, std::size_t) noexcept
{
    free(p);
}
