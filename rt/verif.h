// Harness-side API. The same harness source is (a) lowered to LLVM IR, translated by ll2c and solved by
// CBMC, and (b) compiled natively with g++ -fsanitize=address,undefined for counterexample replay.
// Every input a harness uses comes from the byte array vp_in through the cursor functions below, so a
// CBMC counterexample is replayed by writing vp_in to a file.
#pragma once
#include <cstddef>
#include <cstdint>

extern "C"
{
    void vp_init(void);                        // fills vp_in (CBMC: nondeterministic; native: replay file)
    void vp_bytes(void* p, size_t n);          // next n input bytes (n must be concrete under CBMC)
    uint8_t vp_u8(void);
    uint16_t vp_u16(void);
    uint32_t vp_u32(void);
    uint64_t vp_u64(void);
    void vp_assume(bool c);
    __attribute__((nomerge)) void vp_assert(bool c, const char* label);  // label must be a string literal; nomerge keeps one call per label
    __attribute__((nomerge)) void vp_reach(const char* label);           // vacuity guard: the solver must find an execution reaching this point
    void vp_set_fill(int pattern);              // native replay only: fill pattern of fresh heap memory (C20)
    void vp_note(const char* label, uint64_t v);  // native replay only: print an observed value
}

static inline bool vp_bool()
{
    return (vp_u8() & 1) != 0;
}

#define VP_HARNESS(name)              \
    static void name##_body();        \
    extern "C" void name()            \
    {                                 \
        vp_init();                    \
        name##_body();                \
        vp_reach("end of harness");   \
    }                                 \
    static void name##_body()

// independent big-endian readers used by oracles
static inline uint16_t vp_be16(const uint8_t* p)
{
    return static_cast<uint16_t>((p[0] << 8) | p[1]);
}
static inline uint32_t vp_be32(const uint8_t* p)
{
    return (static_cast<uint32_t>(p[0]) << 24) | (static_cast<uint32_t>(p[1]) << 16) | (static_cast<uint32_t>(p[2]) << 8) | p[3];
}
static inline uint64_t vp_be64(const uint8_t* p)
{
    return (static_cast<uint64_t>(vp_be32(p)) << 32) | vp_be32(p + 4);
}
static inline void vp_put16(uint8_t* p, uint16_t v)
{
    p[0] = static_cast<uint8_t>(v >> 8);
    p[1] = static_cast<uint8_t>(v);
}
static inline void vp_put32(uint8_t* p, uint32_t v)
{
    p[0] = static_cast<uint8_t>(v >> 24);
    p[1] = static_cast<uint8_t>(v >> 16);
    p[2] = static_cast<uint8_t>(v >> 8);
    p[3] = static_cast<uint8_t>(v);
}
