// ll2c: LLVM-14 IR -> C translator for CBMC (spike).
// Typed translation: LLVM struct types become C structs (packed where packed), arrays are wrapped in
// structs so that they are first-class, every derived type gets a typedef so declarators stay trivial.
#include <llvm/IR/LLVMContext.h>
#include <llvm/IR/Module.h>
#include <llvm/IR/Instructions.h>
#include <llvm/IR/IntrinsicInst.h>
#include <llvm/IR/Constants.h>
#include <llvm/IR/Operator.h>
#include <llvm/IR/DataLayout.h>
#include <llvm/IR/DebugInfoMetadata.h>
#include <llvm/IR/CFG.h>
#include <llvm/ADT/PostOrderIterator.h>
#include <llvm/IRReader/IRReader.h>
#include <llvm/Support/SourceMgr.h>
#include <llvm/Support/raw_ostream.h>
#include <llvm/ADT/StringExtras.h>
#include <map>
#include <set>
#include <string>
#include <vector>
#include <sstream>
#include <cstdio>

namespace llvm { class GlobalVariable; }
using namespace llvm;

static const DataLayout* DL;
static std::ostringstream typeDecls;   // typedefs / struct definitions in dependency order
static std::map<Type*, std::string> typeNames;
static std::set<Type*> inProgress;
static std::map<StructType*, bool> structDefined;
static int typeCounter = 0;
static bool emitLines = true;
static bool checkOverflow = false;
static std::string ovfPrefix = "/repo/";
static bool checkStaticWrites = false;
static bool listStatics = false;
static std::string staticSetFile;
static std::set<std::string> staticSetGlobals, staticSetFunctions;
static bool instrumentThisFunction = false;
static bool typedNew = true;
static unsigned typedNewCount = 0;
static unsigned staticWriteChecks = 0, overflowChecks = 0;
static std::vector<const llvm::GlobalVariable*> staticObjects;
static std::vector<std::string> layoutAsserts;

static std::string sanitize(StringRef n)
{
    std::string r;
    for (char c : n)
        r += (isalnum((unsigned char) c) || c == '_') ? c : '_';
    if (r.empty() || isdigit((unsigned char) r[0]))
        r = "_" + r;
    return r;
}

static std::map<const GlobalValue*, std::string> gvNames;
static std::set<std::string> usedNames;
static std::string gvName(const GlobalValue* g)
{
    auto it = gvNames.find(g);
    if (it != gvNames.end())
        return it->second;
    std::string base = sanitize(g->getName());
    std::string n = base;
    int k = 0;
    while (usedNames.count(n))
        n = base + "_" + std::to_string(++k);
    usedNames.insert(n);
    gvNames[g] = n;
    return n;
}

static std::string tyName(Type* t);

static void defineStruct(StructType* st)
{
    if (structDefined[st])
        return;
    structDefined[st] = true;
    std::string n = typeNames[st];
    if (st->isOpaque())
        return;
    std::vector<std::string> elems;
    for (unsigned i = 0; i < st->getNumElements(); ++i)
    {
        Type* et = st->getElementType(i);
        // by-value containment needs full definition first
        std::string en = tyName(et);
        if (auto* est = dyn_cast<StructType>(et))
            defineStruct(est);
        elems.push_back(en);
    }
    typeDecls << "struct " << n << " {";
    for (unsigned i = 0; i < elems.size(); ++i)
        typeDecls << " " << elems[i] << " f" << i << ";";
    if (elems.empty())
        typeDecls << " char _empty[0];";
    typeDecls << " }" << (st->isPacked() ? " __attribute__((packed))" : "") << ";\n";
    if (st->isSized())
    {
        const StructLayout* sl = DL->getStructLayout(st);
        std::ostringstream a;
        a << "_Static_assert(sizeof(struct " << n << ") == " << sl->getSizeInBytes() << ", \"size " << n << "\");";
        layoutAsserts.push_back(a.str());
        for (unsigned i = 0; i < st->getNumElements(); ++i)
        {
            std::ostringstream b;
            b << "_Static_assert(__builtin_offsetof(struct " << n << ", f" << i << ") == " << sl->getElementOffset(i) << ", \"off " << n
              << "\");";
            layoutAsserts.push_back(b.str());
        }
    }
}

static std::string tyName(Type* t)
{
    auto it = typeNames.find(t);
    if (it != typeNames.end())
        return it->second;
    std::string n;
    if (t->isVoidTy())
        n = "void";
    else if (t->isIntegerTy())
    {
        unsigned w = t->getIntegerBitWidth();
        if (w == 1)
            n = "_Bool";
        else if (w == 8)
            n = "unsigned char";
        else if (w == 16)
            n = "unsigned short";
        else if (w == 32)
            n = "unsigned int";
        else if (w == 64)
            n = "unsigned long";
        else if (w == 128)
            n = "unsigned __int128";
        else
        {
            n = "u" + std::to_string(w) + "_t";
            typeDecls << "#if defined(__CPROVER__) || defined(VP_CBMC_BUILD)\ntypedef unsigned __CPROVER_bitvector[" << w << "] " << n << ";\n#else\ntypedef unsigned _ExtInt("
                      << w << ") " << n << ";\n#endif\n";
        }
    }
    else if (t->isFloatTy())
        n = "float";
    else if (t->isDoubleTy())
        n = "double";
    else if (auto* pt = dyn_cast<PointerType>(t))
    {
        Type* et = pt->getNonOpaquePointerElementType();
        n = "p" + std::to_string(++typeCounter) + "_t";
        typeNames[t] = n;
        if (auto* st = dyn_cast<StructType>(et))
        {
            // forward reference is enough
            std::string sn;
            auto sit = typeNames.find(st);
            if (sit == typeNames.end())
            {
                sn = "S" + std::to_string(++typeCounter) + "_" + sanitize(st->hasName() ? st->getName() : "anon");
                typeNames[st] = sn;
                typeDecls << "struct " << sn << "; typedef struct " << sn << " " << sn << ";\n";
            }
            else
                sn = sit->second;
            typeDecls << "typedef " << sn << " *" << n << ";\n";
        }
        else if (et->isFunctionTy())
        {
            auto* ft = cast<FunctionType>(et);
            std::string rn = tyName(ft->getReturnType());
            std::vector<std::string> ps;
            for (auto* p : ft->params())
                ps.push_back(tyName(p));
            typeDecls << "typedef " << rn << " (*" << n << ")(";
            for (unsigned i = 0; i < ps.size(); ++i)
                typeDecls << (i ? ", " : "") << ps[i];
            if (ft->isVarArg())
                typeDecls << (ps.empty() ? "" : ", ...");
            else if (ps.empty())
                typeDecls << "void";
            typeDecls << ");\n";
        }
        else
        {
            std::string en = tyName(et);
            if (et->isVoidTy())
                en = "void";
            typeDecls << "typedef " << en << " *" << n << ";\n";
        }
        return n;
    }
    else if (auto* st = dyn_cast<StructType>(t))
    {
        n = "S" + std::to_string(++typeCounter) + "_" + sanitize(st->hasName() ? st->getName() : "anon");
        typeNames[t] = n;
        typeDecls << "struct " << n << "; typedef struct " << n << " " << n << ";\n";
        return n;
    }
    else if (auto* at = dyn_cast<ArrayType>(t))
    {
        std::string en = tyName(at->getElementType());
        if (auto* est = dyn_cast<StructType>(at->getElementType()))
            defineStruct(est);
        n = "A" + std::to_string(++typeCounter) + "_t";
        typeDecls << "typedef struct { " << en << " e[" << at->getNumElements() << "]; } " << n << ";\n";
    }
    else if (t->isFunctionTy())
    {
        n = "void";  // only reached through pointers
    }
    else
    {
        std::string s;
        raw_string_ostream os(s);
        t->print(os);
        fprintf(stderr, "ll2c: unsupported type %s\n", s.c_str());
        exit(2);
    }
    typeNames[t] = n;
    return n;
}

// make sure by-value types are fully defined
static std::string useTy(Type* t)
{
    std::string n = tyName(t);
    if (auto* st = dyn_cast<StructType>(t))
        defineStruct(st);
    if (auto* at = dyn_cast<ArrayType>(t))
        if (auto* st = dyn_cast<StructType>(at->getElementType()))
            defineStruct(st);
    return n;
}

static std::string signedTy(Type* t)
{
    unsigned w = t->getIntegerBitWidth();
    switch (w)
    {
        case 1:
            return "signed char";
        case 8:
            return "signed char";
        case 16:
            return "short";
        case 32:
            return "int";
        case 64:
            return "long";
        case 128:
            return "__int128";
    }
    return "s" + std::to_string(w) + "_t";
}

struct FnCtx
{
    std::map<const Value*, std::string> names;
    int counter = 0;
    std::ostringstream decls;
    std::ostringstream body;
    int nondetCounter = 0;
};

static std::string constExpr(const Constant* c, FnCtx* fc, bool inInitializer);

static std::string intLit(const APInt& v, Type* t)
{
    unsigned w = t->getIntegerBitWidth();
    if (w == 1)
        return v.isZero() ? "0" : "1";
    if (w <= 64)
    {
        std::string s = toString(v, 10, false);
        return "((" + tyName(t) + ")" + s + (w > 32 ? "UL" : "U") + ")";
    }
    // wide literal: build from 64-bit chunks
    std::string r = "((" + tyName(t) + ")0";
    for (unsigned i = 0; i < v.getNumWords(); ++i)
        r += " | ((" + tyName(t) + ")" + std::to_string(v.getRawData()[i]) + "UL << " + std::to_string(64 * i) + ")";
    return r + ")";
}

static std::string valueName(const Value* v, FnCtx& fc)
{
    if (auto* c = dyn_cast<Constant>(v))
        return constExpr(c, &fc, false);
    auto it = fc.names.find(v);
    if (it != fc.names.end())
        return it->second;
    std::string n = (isa<Argument>(v) ? "a" : "v") + std::to_string(++fc.counter);
    fc.names[v] = n;
    return n;
}

static std::string gepExpr(Type* srcElemTy, const std::string& base, ArrayRef<const Value*> idx, FnCtx* fc, Type* resultTy)
{
    // &((T*)base)[i0].f.e[i]...
    std::string e = "(" + base + ")";
    Type* cur = srcElemTy;
    bool first = true;
    useTy(srcElemTy);
    for (const Value* iv : idx)
    {
        std::string is;
        if (auto* ci = dyn_cast<ConstantInt>(iv))
            is = std::to_string(ci->getSExtValue());
        else
        {
            std::string n = fc ? valueName(iv, *fc) : "0";
            is = "(" + signedTy(iv->getType()) + ")" + n;
        }
        if (first)
        {
            e = e + "[" + is + "]";
            first = false;
            continue;
        }
        if (auto* st = dyn_cast<StructType>(cur))
        {
            unsigned fi = (unsigned) cast<ConstantInt>(iv)->getZExtValue();
            defineStruct(st);
            e = e + ".f" + std::to_string(fi);
            cur = st->getElementType(fi);
        }
        else if (auto* at = dyn_cast<ArrayType>(cur))
        {
            e = e + ".e[" + is + "]";
            cur = at->getElementType();
        }
        else
        {
            fprintf(stderr, "ll2c: bad gep\n");
            exit(2);
        }
    }
    if (cur->isStructTy())
        defineStruct(cast<StructType>(cur));
    return "((" + tyName(resultTy) + ")&" + e + ")";
}

static std::string zeroInit(Type* t)
{
    if (t->isStructTy() || t->isArrayTy())
        return "{0}";
    return "0";
}

static std::string constExpr(const Constant* c, FnCtx* fc, bool inInit)
{
    Type* t = c->getType();
    if (auto* ci = dyn_cast<ConstantInt>(c))
        return intLit(ci->getValue(), t);
    if (auto* cf = dyn_cast<ConstantFP>(c))
    {
        APInt bits = cf->getValueAPF().bitcastToAPInt();
        char buf[64];
        if (t->isFloatTy())
        {
            float f = cf->getValueAPF().convertToFloat();
            snprintf(buf, sizeof buf, "%a", f);
            return std::string("((float)") + buf + "f)";
        }
        double d = cf->getValueAPF().convertToDouble();
        snprintf(buf, sizeof buf, "%a", d);
        return std::string("((double)") + buf + ")";
    }
    if (isa<ConstantPointerNull>(c))
        return "((" + tyName(t) + ")0)";
    if (isa<UndefValue>(c))
    {
        if (inInit)
            return zeroInit(t);
        if (t->isIntegerTy() || t->isPointerTy() || t->isFloatingPointTy())
        {
            // undef / poison: an arbitrary value
            if (t->isFloatingPointTy())
                return "((" + tyName(t) + ")nondet_vp_undef_double())";
            return "((" + tyName(t) + ")nondet_vp_undef_u64())";
        }
        return "(" + useTy(t) + "){0}";
    }
    if (isa<ConstantAggregateZero>(c))
    {
        if (inInit)
            return "{0}";
        return "(" + useTy(t) + "){0}";
    }
    if (auto* gv = dyn_cast<GlobalVariable>(c))
        return "(&" + gvName(gv) + ")";
    if (auto* f = dyn_cast<Function>(c))
        return "((" + tyName(t) + ")&" + gvName(f) + ")";
    if (auto* ga = dyn_cast<GlobalAlias>(c))
        return constExpr(ga->getAliasee(), fc, inInit);
    if (auto* ca = dyn_cast<ConstantDataSequential>(c))
    {
        std::string r = inInit ? "{{" : "(" + useTy(t) + "){{";
        for (unsigned i = 0; i < ca->getNumElements(); ++i)
            r += (i ? "," : "") + constExpr(ca->getElementAsConstant(i), fc, true);
        return r + "}}";
    }
    if (auto* ca = dyn_cast<ConstantArray>(c))
    {
        std::string r = inInit ? "{{" : "(" + useTy(t) + "){{";
        for (unsigned i = 0; i < ca->getNumOperands(); ++i)
            r += (i ? "," : "") + constExpr(ca->getOperand(i), fc, true);
        return r + "}}";
    }
    if (auto* cs = dyn_cast<ConstantStruct>(c))
    {
        std::string r = inInit ? "{" : "(" + useTy(t) + "){";
        for (unsigned i = 0; i < cs->getNumOperands(); ++i)
            r += (i ? "," : "") + constExpr(cs->getOperand(i), fc, true);
        return r + "}";
    }
    if (auto* ce = dyn_cast<ConstantExpr>(c))
    {
        switch (ce->getOpcode())
        {
            case Instruction::BitCast:
            case Instruction::AddrSpaceCast:
                return "((" + tyName(t) + ")" + constExpr(ce->getOperand(0), fc, false) + ")";
            case Instruction::PtrToInt:
                return "((" + tyName(t) + ")(unsigned long)" + constExpr(ce->getOperand(0), fc, false) + ")";
            case Instruction::IntToPtr:
                return "((" + tyName(t) + ")(unsigned long)" + constExpr(ce->getOperand(0), fc, false) + ")";
            case Instruction::GetElementPtr:
            {
                auto* gep = cast<GEPOperator>(ce);
                std::vector<const Value*> idx;
                for (auto it = gep->idx_begin(); it != gep->idx_end(); ++it)
                    idx.push_back(it->get());
                return gepExpr(gep->getSourceElementType(), constExpr(ce->getOperand(0), fc, false), idx, fc, t);
            }
            case Instruction::Add:
                return "((" + tyName(t) + ")(" + constExpr(ce->getOperand(0), fc, false) + " + " + constExpr(ce->getOperand(1), fc, false) + "))";
            case Instruction::Sub:
                return "((" + tyName(t) + ")(" + constExpr(ce->getOperand(0), fc, false) + " - " + constExpr(ce->getOperand(1), fc, false) + "))";
            case Instruction::ICmp:
            {
                const char* op = ce->getPredicate() == CmpInst::ICMP_EQ ? "==" : ce->getPredicate() == CmpInst::ICMP_NE ? "!=" : nullptr;
                if (op)
                    return "(" + constExpr(ce->getOperand(0), fc, false) + " " + op + " " + constExpr(ce->getOperand(1), fc, false) + ")";
                break;
            }
            default:
                break;
        }
    }
    std::string s;
    raw_string_ostream os(s);
    c->print(os);
    fprintf(stderr, "ll2c: unsupported constant %s\n", s.c_str());
    exit(2);
}

static std::string stringLiteralOf(const Value* v)
{
    v = v->stripPointerCasts();
    if (auto* gv = dyn_cast<GlobalVariable>(v))
        if (gv->hasInitializer())
            if (auto* cd = dyn_cast<ConstantDataArray>(gv->getInitializer()))
                if (cd->isCString())
                {
                    std::string r = "\"";
                    for (char ch : cd->getAsCString())
                    {
                        if (ch == '"' || ch == '\\')
                            r += '\\';
                        if (ch == '\n')
                        {
                            r += "\\n";
                            continue;
                        }
                        r += ch;
                    }
                    return r + "\"";
                }
    return "\"?\"";
}

static std::string castTo(Type* t, const std::string& e)
{
    return "((" + tyName(t) + ")(" + e + "))";
}

static void emitPhiCopies(const BasicBlock* from, const BasicBlock* to, FnCtx& fc, std::ostream& os)
{
    std::vector<std::pair<std::string, std::string>> copies;
    for (const PHINode& phi : to->phis())
    {
        const Value* in = phi.getIncomingValueForBlock(from);
        std::string tmp = valueName(&phi, fc) + "_in";
        os << "    " << tmp << " = " << valueName(in, fc) << ";\n";
        copies.push_back({valueName(&phi, fc), tmp});
    }
    for (auto& c : copies)
        os << "    " << c.first << " = " << c.second << ";\n";
}

static std::map<const BasicBlock*, std::string> bbNames;
static std::vector<const Function*> vtableFunctions;

static void collectFunctions(const Constant* c, std::set<const Function*>& out, std::set<const Constant*>& seen)
{
    if (!seen.insert(c).second)
        return;
    if (auto* f = dyn_cast<Function>(c))
    {
        out.insert(f);
        return;
    }
    if (isa<GlobalVariable>(c))
        return;
    for (unsigned i = 0; i < c->getNumOperands(); ++i)
        if (auto* oc = dyn_cast<Constant>(c->getOperand(i)))
            collectFunctions(oc, out, seen);
}

// llvm-link leaves isomorphic copies of one class under suffixed names (%"class.X" and %"class.X.17") when translation units
// disagree about some member's completeness; for dispatch they are the same class
static std::string classBaseName(Type* t)
{
    auto* st = dyn_cast<StructType>(t);
    if (!st || st->isLiteral() || !st->hasName())
        return "";
    std::string n = st->getName().str();
    // strip, repeatedly, a numeric uniquing suffix (".17") and clang's base-subobject suffix (".base": the class without its
    // tail padding, which is what a derived class embeds as its first member)
    for (bool again = true; again;)
    {
        again = false;
        size_t dot = n.find_last_of('.');
        if (dot == std::string::npos || dot == n.find('.'))
            break;   // only the "class." / "struct." tag is left in front
        std::string tail = n.substr(dot + 1);
        if (tail == "base" || (!tail.empty() && tail.find_first_not_of("0123456789") == std::string::npos))
        {
            n.erase(dot);
            again = true;
        }
    }
    return n;
}
static bool sameClass(Type* a, Type* b)
{
    if (a == b)
        return true;
    std::string na = classBaseName(a), nb = classBaseName(b);
    return !na.empty() && na == nb;
}

static bool derivesFrom(Type* d, Type* b)
{
    // single inheritance: the primary base subobject is the first struct element
    while (d)
    {
        if (sameClass(d, b))
            return true;
        auto* st = dyn_cast<StructType>(d);
        if (!st || st->isOpaque() || st->getNumElements() == 0)
            return false;
        d = st->getElementType(0);
    }
    return false;
}

static std::vector<std::vector<const Function*>> vtables;  // functions by slot (address point = element 2)

static long vtableSlotOf(const Value* fp)
{
    auto* l1 = dyn_cast<LoadInst>(fp->stripPointerCasts());
    if (!l1)
        return -1;
    const Value* p = l1->getPointerOperand()->stripPointerCasts();
    long k = 0;
    if (auto* g = dyn_cast<GetElementPtrInst>(p))
    {
        if (g->getNumIndices() != 1 || !isa<ConstantInt>(g->getOperand(1)))
            return -1;
        k = cast<ConstantInt>(g->getOperand(1))->getSExtValue();
        p = g->getPointerOperand()->stripPointerCasts();
    }
    if (!isa<LoadInst>(p))
        return -1;
    return k;
}

static std::vector<const Function*> dispatchCandidates(const CallInst* call)
{
    std::vector<const Function*> r;
    FunctionType* ft = call->getFunctionType();
    long slot = vtableSlotOf(call->getCalledOperand());
    std::vector<const Function*> pool;
    if (slot >= 0)
    {
        std::set<const Function*> uniq;
        for (auto& vt : vtables)
            if ((size_t) slot < vt.size() && vt[slot] && uniq.insert(vt[slot]).second)
                pool.push_back(vt[slot]);
    }
    else
        pool = vtableFunctions;
    for (const Function* f : pool)
    {
        FunctionType* gt = f->getFunctionType();
        if (gt->getReturnType() != ft->getReturnType() || gt->getNumParams() != ft->getNumParams() || gt->isVarArg() != ft->isVarArg())
            continue;
        bool ok = true;
        for (unsigned i = 0; i < ft->getNumParams() && ok; ++i)
        {
            Type* a = ft->getParamType(i);
            Type* b = gt->getParamType(i);
            if (a == b)
                continue;
            if (i == 0 && a->isPointerTy() && b->isPointerTy())
            {
                Type* ae = a->getNonOpaquePointerElementType();
                Type* be = b->getNonOpaquePointerElementType();
                if (derivesFrom(be, ae) || derivesFrom(ae, be))
                    continue;
            }
            ok = false;
        }
        if (ok)
            r.push_back(f);
    }
    return r;
}

static unsigned ptrDiffCount = 0;
struct LinForm
{
    std::map<const Value*, long> ptrs;  // pointer operand of ptrtoint -> coefficient
    std::map<const Value*, long> ints;  // other i64 values -> coefficient
    long c = 0;
    unsigned sawPtr = 0;
};
static void linForm(const Value* v, long coef, LinForm& lf, int depth)
{
    if (auto* ci = dyn_cast<ConstantInt>(v))
    {
        lf.c += coef * ci->getSExtValue();
        return;
    }
    const Value* pop = nullptr;
    if (auto* pi = dyn_cast<PtrToIntInst>(v))
        pop = pi->getPointerOperand();
    else if (auto* ce = dyn_cast<ConstantExpr>(v))
    {
        if (ce->getOpcode() == Instruction::PtrToInt)
            pop = ce->getOperand(0);
    }
    if (pop)
    {
        if (isa<ConstantPointerNull>(pop))
            return;
        lf.ptrs[pop] += coef;
        ++lf.sawPtr;
        return;
    }
    if (auto* bo = dyn_cast<BinaryOperator>(v))
        if (depth < 6 && (bo->getOpcode() == Instruction::Add || bo->getOpcode() == Instruction::Sub))
        {
            linForm(bo->getOperand(0), coef, lf, depth + 1);
            linForm(bo->getOperand(1), bo->getOpcode() == Instruction::Add ? coef : -coef, lf, depth + 1);
            return;
        }
    lf.ints[v] += coef;
}

static bool typedMem = true;
// --bytewise-wire ("huge buffer" mode): integer loads/stores that go through a packed struct (the library's wire headers are
// #pragma pack(1) overlays on byte buffers) or through a pointer obtained by casting an i8* are emitted as single-byte
// accesses, and copies of packed structs as byte copies. CBMC then sees only byte reads / writes on the byte buffers; a wide
// access into a 64 KiB array otherwise makes it build an array-sized byte_update expression per access.
static bool bytewiseWire = false;
static bool isPackedStructTy(Type* t)
{
    auto* st = dyn_cast<StructType>(t);
    return st && !st->isOpaque() && st->isPacked();
}
static bool wirePointer(const Value* p)
{
    if (!bytewiseWire)
        return false;
    for (int depth = 0; depth < 8 && p; ++depth)
    {
        if (auto* pt = dyn_cast<PointerType>(p->getType()))
            if (isPackedStructTy(pt->getNonOpaquePointerElementType()))
                return true;
        if (auto* g = dyn_cast<GEPOperator>(p))
        {
            if (isPackedStructTy(g->getSourceElementType()))
                return true;
            p = g->getPointerOperand();
            continue;
        }
        if (auto* bc = dyn_cast<BitCastOperator>(p))
        {
            const Value* src = bc->getOperand(0);
            if (auto* spt = dyn_cast<PointerType>(src->getType()))
                if (spt->getNonOpaquePointerElementType()->isIntegerTy(8))
                    return true;
            p = src;
            continue;
        }
        break;
    }
    return false;
}
// the struct/array type T such that p (bitcasts stripped) is a T* and len == sizeof(T); nullptr otherwise
static Type* typedPointee(const Value* p, const Value* len)
{
    auto* cl = dyn_cast<ConstantInt>(len);
    if (!cl)
        return nullptr;
    const Value* base = p->stripPointerCasts();
    auto* pt = dyn_cast<PointerType>(base->getType());
    if (!pt)
        return nullptr;
    Type* et = pt->getNonOpaquePointerElementType();
    if (!(et->isStructTy() || et->isArrayTy()) || !et->isSized())
        return nullptr;
    if (auto* st = dyn_cast<StructType>(et))
        if (st->isOpaque())
            return nullptr;
    if (DL->getTypeAllocSize(et) != cl->getZExtValue())
        return nullptr;
    if (bytewiseWire && isPackedStructTy(et))
        return nullptr;
    return et;
}

// Emit field-wise zeroing (src empty) or copying (src = lvalue expression) of the first `len` bytes of an lvalue of
// type t. Returns false if the byte range does not end on a member boundary (caller falls back to memset/memcpy).
static bool emitPrefix(Type* t, const std::string& dst, const std::string& src, uint64_t len, std::ostream& os)
{
    if (len == 0)
        return true;
    if (DL->getTypeAllocSize(t) == len || (DL->getTypeStoreSize(t) == len && !t->isStructTy() && !t->isArrayTy()))
    {
        if (src.empty())
        {
            if (t->isStructTy() || t->isArrayTy())
                os << "    " << dst << " = (" << useTy(t) << "){0};\n";
            else
                os << "    " << dst << " = 0;\n";
        }
        else
            os << "    " << dst << " = " << src << ";\n";
        return true;
    }
    if (auto* st = dyn_cast<StructType>(t))
    {
        if (st->isOpaque())
            return false;
        const StructLayout* sl = DL->getStructLayout(st);
        defineStruct(st);
        for (unsigned i = 0; i < st->getNumElements(); ++i)
        {
            uint64_t off = sl->getElementOffset(i);
            if (off >= len)
                break;
            Type* et = st->getElementType(i);
            uint64_t sz = DL->getTypeAllocSize(et);
            uint64_t take = (off + sz <= len) ? sz : len - off;
            // a member that is fully covered but followed by padding inside the range is fine (padding is ignored)
            if (!emitPrefix(et, dst + ".f" + std::to_string(i), src.empty() ? "" : src + ".f" + std::to_string(i), take == sz ? DL->getTypeAllocSize(et) : take, os))
                return false;
        }
        return true;
    }
    if (auto* at = dyn_cast<ArrayType>(t))
    {
        Type* et = at->getElementType();
        uint64_t sz = DL->getTypeAllocSize(et);
        if (sz == 0)
            return false;
        for (uint64_t i = 0; i * sz < len; ++i)
        {
            uint64_t take = ((i + 1) * sz <= len) ? sz : len - i * sz;
            if (!emitPrefix(et, dst + ".e[" + std::to_string(i) + "]", src.empty() ? "" : src + ".e[" + std::to_string(i) + "]", take, os))
                return false;
        }
        return true;
    }
    return false;
}

// Copy between a typed lvalue of type t and raw bytes at (char*)bytes + off, leaf by leaf.
// toTyped: typed <- bytes, else bytes <- typed.
static bool emitLeafCopy(Type* t, const std::string& typed, const std::string& bytes, uint64_t off, bool toTyped, std::ostream& os)
{
    if (auto* st = dyn_cast<StructType>(t))
    {
        if (st->isOpaque())
            return false;
        const StructLayout* sl = DL->getStructLayout(st);
        defineStruct(st);
        for (unsigned i = 0; i < st->getNumElements(); ++i)
            if (!emitLeafCopy(st->getElementType(i), typed + ".f" + std::to_string(i), bytes, off + sl->getElementOffset(i), toTyped, os))
                return false;
        return true;
    }
    if (auto* at = dyn_cast<ArrayType>(t))
    {
        uint64_t sz = DL->getTypeAllocSize(at->getElementType());
        if (at->getNumElements() > 64)
            return false;
        for (uint64_t i = 0; i < at->getNumElements(); ++i)
            if (!emitLeafCopy(at->getElementType(), typed + ".e[" + std::to_string(i) + "]", bytes, off + i * sz, toTyped, os))
                return false;
        return true;
    }
    if (!(t->isIntegerTy() || t->isPointerTy() || t->isFloatingPointTy()))
        return false;
    if (t->isIntegerTy() && t->getIntegerBitWidth() % 8 != 0)
        return false;
    std::string acc = "*(" + useTy(t) + "*)((char*)" + bytes + " + " + std::to_string(off) + ")";
    if (toTyped)
        os << "    " << typed << " = " << acc << ";\n";
    else
        os << "    " << acc << " = " << typed << ";\n";
    return true;
}

// pointee type of p with bitcasts stripped, if it is a sized struct/array at least `len` bytes long
static Type* prefixPointee(const Value* p, const Value* len)
{
    auto* cl = dyn_cast<ConstantInt>(len);
    if (!cl)
        return nullptr;
    auto* pt = dyn_cast<PointerType>(p->stripPointerCasts()->getType());
    if (!pt)
        return nullptr;
    Type* et = pt->getNonOpaquePointerElementType();
    if (!(et->isStructTy() || et->isArrayTy()) || !et->isSized())
        return nullptr;
    if (auto* st = dyn_cast<StructType>(et))
        if (st->isOpaque())
            return nullptr;
    if (DL->getTypeAllocSize(et) < cl->getZExtValue())
        return nullptr;
    if (bytewiseWire && isPackedStructTy(et))
        return nullptr;
    return et;
}

static std::string widen(Type* t, const std::string& e, bool sgn)
{
    unsigned w = t->getIntegerBitWidth();
    if (sgn)
    {
        if (w == 1)
            return "((int)(" + e + " ? -1 : 0))";
        if (w < 32)
            return "((int)(" + signedTy(t) + ")" + e + ")";
        return "((" + signedTy(t) + ")" + e + ")";
    }
    if (w < 32)
        return "((unsigned int)" + e + ")";
    return e;
}

// C19: "p does not point into an object with static storage duration of the library"
static std::string notStatic(const std::string& p)
{
    ++staticWriteChecks;
    return "VP_ASSERT(VP_NOT_STATIC(" + p + "), \"C19: library code writes to an object with static storage duration (shared between instances and threads)\");";
}

static void emitFunction(const Function& F, std::ostream& out)
{
    FnCtx fc;
    instrumentThisFunction = checkStaticWrites && staticSetFunctions.count(F.getName().str()) != 0;
    bbNames.clear();
    int bbc = 0;
    for (const BasicBlock& bb : F)
        bbNames[&bb] = "bb" + std::to_string(bbc++);

    std::ostringstream ib;  // text of the current instruction; flushed with a #line directive per physical line
    std::ostream& os = ib;
    std::string curLine;
    auto line = [&](const Instruction& I)
    {
        curLine.clear();
        if (!emitLines)
            return;
        if (const DebugLoc& dl = I.getDebugLoc())
            if (dl.getLine())
            {
                auto* scope = cast<DIScope>(dl.getScope());
                std::string dir = scope->getDirectory().str();
                std::string file = scope->getFilename().str();
                if (!file.empty() && file[0] != '/')
                    file = dir + "/" + file;
                curLine = "#line " + std::to_string(dl.getLine()) + " \"" + file + "\"\n";
            }
    };
    struct Flush
    {
        std::ostringstream& ib;
        std::ostream& out;
        std::string& cl;
        ~Flush()
        {
            std::string t = ib.str();
            ib.str("");
            size_t p = 0;
            while (p < t.size())
            {
                size_t q = t.find('\n', p);
                if (q == std::string::npos)
                    q = t.size();
                out << cl << t.substr(p, q - p) << "\n";
                p = q + 1;
            }
        }
    };

    // Blocks are emitted in reverse post-order: loop exits then follow their loops in the text, which is what
    // CBMC's per-loop unwinding counters need in order to be reset when a nested loop is re-entered.
    ReversePostOrderTraversal<const Function*> rpot(&F);
    for (const BasicBlock* bbp : rpot)
    {
        const BasicBlock& bb = *bbp;
        fc.body << bbNames[&bb] << ": ;\n";
        for (const Instruction& I : bb)
        {
            Flush flusher{ib, fc.body, curLine};
            if (isa<PHINode>(I))
            {
                fc.decls << "  " << useTy(I.getType()) << " " << valueName(&I, fc) << "; " << useTy(I.getType()) << " " << valueName(&I, fc)
                         << "_in;\n";
                continue;
            }
            if (isa<DbgInfoIntrinsic>(I))
                continue;
            line(I);
            Type* t = I.getType();
            std::string lhs;
            if (!t->isVoidTy())
            {
                lhs = valueName(&I, fc);
                if (!isa<AllocaInst>(I))
                    fc.decls << "  " << useTy(t) << " " << lhs << ";\n";
            }
            auto op = [&](unsigned i) { return valueName(I.getOperand(i), fc); };

            if (auto* ai = dyn_cast<AllocaInst>(&I))
            {
                Type* at = ai->getAllocatedType();
                std::string an = lhs + "_mem";
                if (ai->isArrayAllocation())
                {
                    auto* n = dyn_cast<ConstantInt>(ai->getArraySize());
                    if (!n)
                    {
                        fprintf(stderr, "ll2c: dynamic alloca\n");
                        exit(2);
                    }
                    fc.decls << "  " << useTy(at) << " " << an << "[" << n->getZExtValue() << "];\n";
                    fc.decls << "  " << tyName(t) << " " << lhs << " = &" << an << "[0];\n";
                }
                else
                {
                    // a scalar local that is also accessed piecewise (through casts): declare it as bytes, so that CBMC tracks
                    // it per byte (byte_update chains on a 64-bit scalar are not constant-folded)
                    bool piecewise = false;
                    if (at->isIntegerTy() && at->getIntegerBitWidth() > 8)
                        for (const User* u : ai->users())
                        {
                            if (auto* l = dyn_cast<LoadInst>(u))
                            {
                                if (l->getType() == at)
                                    continue;
                            }
                            else if (auto* st2 = dyn_cast<StoreInst>(u))
                            {
                                if (st2->getPointerOperand() == ai && st2->getValueOperand()->getType() == at)
                                    continue;
                            }
                            else if (isa<DbgInfoIntrinsic>(u))
                                continue;
                            else if (auto* ii = dyn_cast<IntrinsicInst>(u))
                            {
                                if (ii->getIntrinsicID() == Intrinsic::lifetime_start || ii->getIntrinsicID() == Intrinsic::lifetime_end)
                                    continue;
                            }
                            piecewise = true;
                        }
                    if (piecewise)
                    {
                        fc.decls << "  unsigned char " << an << "[" << DL->getTypeAllocSize(at) << "] __attribute__((aligned(8)));\n";
                        fc.decls << "  " << tyName(t) << " " << lhs << " = (" << tyName(t) << ")&" << an << "[0];\n";
                    }
                    else
                    {
                        fc.decls << "  " << useTy(at) << " " << an << ";\n";
                        fc.decls << "  " << tyName(t) << " " << lhs << " = &" << an << ";\n";
                    }
                }
            }
            else if (auto* li = dyn_cast<LoadInst>(&I))
            {
                useTy(t);
                unsigned bw = t->isIntegerTy() ? t->getIntegerBitWidth() : 0;
                if ((bw == 16 || bw == 32 || bw == 64) && wirePointer(li->getPointerOperand()))
                {
                    os << "    { const unsigned char* vp_b_ = (const unsigned char*)" << op(0) << "; " << lhs << " = (" << tyName(t) << ")(";
                    for (unsigned k = 0; k < bw / 8; ++k)
                        os << (k ? " | " : "") << "((unsigned long)vp_b_[" << k << "] << " << 8 * k << ")";
                    os << "); }\n";
                }
                else
                    os << "    " << lhs << " = *" << op(0) << ";\n";
            }
            else if (auto* si = dyn_cast<StoreInst>(&I))
            {
                useTy(si->getValueOperand()->getType());
                if (instrumentThisFunction && !si->isAtomic())
                    os << "    " << notStatic(op(1)) << "\n";
                Type* vt = si->getValueOperand()->getType();
                unsigned bw = vt->isIntegerTy() ? vt->getIntegerBitWidth() : 0;
                if ((bw == 16 || bw == 32 || bw == 64) && wirePointer(si->getPointerOperand()))
                {
                    os << "    { unsigned char* vp_b_ = (unsigned char*)" << op(1) << "; unsigned long vp_v_ = (unsigned long)" << op(0) << ";";
                    for (unsigned k = 0; k < bw / 8; ++k)
                        os << " vp_b_[" << k << "] = (unsigned char)(vp_v_ >> " << 8 * k << ");";
                    os << " }\n";
                }
                else
                    os << "    *" << op(1) << " = " << op(0) << ";\n";
            }
            else if (auto* gep = dyn_cast<GetElementPtrInst>(&I))
            {
                std::vector<const Value*> idx;
                for (auto it = gep->idx_begin(); it != gep->idx_end(); ++it)
                    idx.push_back(it->get());
                os << "    " << lhs << " = " << gepExpr(gep->getSourceElementType(), op(0), idx, &fc, t) << ";\n";
            }
            else if (auto* bo = dyn_cast<BinaryOperator>(&I))
            {
                std::string a = op(0), b = op(1), e;
                if (t->isFloatingPointTy())
                {
                    const char* o = nullptr;
                    switch (bo->getOpcode())
                    {
                        case Instruction::FAdd: o = "+"; break;
                        case Instruction::FSub: o = "-"; break;
                        case Instruction::FMul: o = "*"; break;
                        case Instruction::FDiv: o = "/"; break;
                        default: break;
                    }
                    if (!o)
                    {
                        fprintf(stderr, "ll2c: fp op\n");
                        exit(2);
                    }
                    os << "    " << lhs << " = " << a << " " << o << " " << b << ";\n";
                    continue;
                }
                unsigned w = t->getIntegerBitWidth();
                // Pointer differences. LLVM lowers p - q to integer arithmetic on ptrtoint values and re-associates it with
                // other terms (finish_int - (bytesLeft + start_int)); CBMC cannot cancel symbolic base addresses in such
                // sums, so offsets derived from them stop being constants. A linear form over ptrtoint terms is recovered here
                // and +p -q pairs are emitted as C pointer subtractions, which CBMC evaluates on offsets.
                if ((bo->getOpcode() == Instruction::Add || bo->getOpcode() == Instruction::Sub) && w == 64)
                {
                    LinForm lf;
                    linForm(bo, 1, lf, 0);
                    unsigned plus = 0, minus = 0;
                    for (auto& kv : lf.ptrs)
                    {
                        if (kv.second == 1)
                            ++plus;
                        else if (kv.second == -1)
                            ++minus;
                        else if (kv.second != 0)
                            plus = 99;
                    }
                    if (lf.sawPtr >= 2 && plus == minus && plus <= 2)
                    {
                        std::vector<const Value*> ps, ms;
                        for (auto& kv : lf.ptrs)
                        {
                            if (kv.second == 1)
                                ps.push_back(kv.first);
                            if (kv.second == -1)
                                ms.push_back(kv.first);
                        }
                        std::string ex = "0UL";
                        for (size_t i = 0; i < ps.size(); ++i)
                            ex += " + (unsigned long)VP_PTRDIFF(" + valueName(ps[i], fc) + ", " + valueName(ms[i], fc) + ")";
                        for (auto& kv : lf.ints)
                        {
                            if (kv.second == 0)
                                continue;
                            std::string v = valueName(kv.first, fc);
                            if (kv.second == 1)
                                ex += " + " + v;
                            else if (kv.second == -1)
                                ex += " - " + v;
                            else
                                ex += " + (unsigned long)" + std::to_string(kv.second) + "L * " + v;
                        }
                        if (lf.c)
                            ex += " + (unsigned long)" + std::to_string(lf.c) + "L";
                        os << "    " << lhs << " = " << ex << ";\n";
                        ++ptrDiffCount;
                        continue;
                    }
                }
                switch (bo->getOpcode())
                {
                    case Instruction::Add: e = widen(t, a, false) + " + " + widen(t, b, false); break;
                    case Instruction::Sub: e = widen(t, a, false) + " - " + widen(t, b, false); break;
                    case Instruction::Mul: e = widen(t, a, false) + " * " + widen(t, b, false); break;
                    case Instruction::UDiv: e = widen(t, a, false) + " / " + widen(t, b, false); break;
                    case Instruction::URem: e = widen(t, a, false) + " % " + widen(t, b, false); break;
                    case Instruction::SDiv: e = widen(t, a, true) + " / " + widen(t, b, true); break;
                    case Instruction::SRem: e = widen(t, a, true) + " % " + widen(t, b, true); break;
                    case Instruction::And: e = widen(t, a, false) + " & " + widen(t, b, false); break;
                    case Instruction::Or: e = widen(t, a, false) + " | " + widen(t, b, false); break;
                    case Instruction::Xor: e = widen(t, a, false) + " ^ " + widen(t, b, false); break;
                    // an oversized shift distance yields poison in LLVM (not UB): model it as an arbitrary value
                    case Instruction::Shl:
                    case Instruction::LShr:
                    case Instruction::AShr:
                    {
                        bool ar = bo->getOpcode() == Instruction::AShr;
                        std::string sh = widen(t, a, ar) + (bo->getOpcode() == Instruction::Shl ? " << " : " >> ") + widen(t, b, false);
                        auto* cb = dyn_cast<ConstantInt>(bo->getOperand(1));
                        if (cb && cb->getValue().ult(w))
                            e = sh;
                        else
                            e = "(" + widen(t, b, false) + " < " + std::to_string(w) + " ? " + sh + " : nondet_vp_undef_u64())";
                        break;
                    }
                    default:
                        fprintf(stderr, "ll2c: binop\n");
                        exit(2);
                }
                (void) w;
                os << "    " << lhs << " = " << castTo(t, e) << ";\n";
            }
            else if (auto* ic = dyn_cast<ICmpInst>(&I))
            {
                Type* ot = ic->getOperand(0)->getType();
                std::string a = op(0), b = op(1);
                bool sgn = ic->isSigned();
                if (ot->isPointerTy())
                {
                    // compare as integers (CBMC compares pointers structurally; eq/ne are fine, relational on same object)
                    if (ic->isEquality())
                    {
                        a = "(void*)" + a;
                        b = "(void*)" + b;
                    }
                    else
                    {
                        a = "(unsigned long)" + a;
                        b = "(unsigned long)" + b;
                    }
                }
                else
                {
                    a = widen(ot, a, sgn);
                    b = widen(ot, b, sgn);
                }
                const char* o = nullptr;
                switch (ic->getPredicate())
                {
                    case CmpInst::ICMP_EQ: o = "=="; break;
                    case CmpInst::ICMP_NE: o = "!="; break;
                    case CmpInst::ICMP_UGT: case CmpInst::ICMP_SGT: o = ">"; break;
                    case CmpInst::ICMP_UGE: case CmpInst::ICMP_SGE: o = ">="; break;
                    case CmpInst::ICMP_ULT: case CmpInst::ICMP_SLT: o = "<"; break;
                    case CmpInst::ICMP_ULE: case CmpInst::ICMP_SLE: o = "<="; break;
                    default: break;
                }
                os << "    " << lhs << " = (" << a << " " << o << " " << b << ");\n";
            }
            else if (auto* fcmp = dyn_cast<FCmpInst>(&I))
            {
                const char* o = nullptr;
                bool unord = false;
                switch (fcmp->getPredicate())
                {
                    case CmpInst::FCMP_OEQ: o = "=="; break;
                    case CmpInst::FCMP_UNE: o = "!="; break;
                    case CmpInst::FCMP_OGT: o = ">"; break;
                    case CmpInst::FCMP_OGE: o = ">="; break;
                    case CmpInst::FCMP_OLT: o = "<"; break;
                    case CmpInst::FCMP_OLE: o = "<="; break;
                    default: unord = true; break;
                }
                if (unord)
                {
                    fprintf(stderr, "ll2c: fcmp predicate\n");
                    exit(2);
                }
                os << "    " << lhs << " = (" << op(0) << " " << o << " " << op(1) << ");\n";
            }
            else if (auto* ci = dyn_cast<CastInst>(&I))
            {
                Type* st = ci->getSrcTy();
                switch (ci->getOpcode())
                {
                    case Instruction::Trunc:
                    case Instruction::ZExt:
                        os << "    " << lhs << " = " << castTo(t, op(0)) << ";\n";
                        break;
                    case Instruction::SExt:
                        os << "    " << lhs << " = ((" << tyName(t) << ")(" << signedTy(t) << ")" << widen(st, op(0), true) << ");\n";
                        break;
                    case Instruction::BitCast:
                        if (t->isPointerTy())
                            os << "    " << lhs << " = " << castTo(t, op(0)) << ";\n";
                        else
                        {
                            // scalar reinterpretation (float <-> int)
                            os << "    { " << useTy(st) << " _s = " << op(0) << "; memcpy(&" << lhs << ", &_s, sizeof(" << lhs
                               << ")); }\n";
                        }
                        break;
                    case Instruction::PtrToInt:
                        os << "    " << lhs << " = ((" << tyName(t) << ")(unsigned long)" << op(0) << ");\n";
                        break;
                    case Instruction::IntToPtr:
                        os << "    " << lhs << " = ((" << tyName(t) << ")(unsigned long)" << op(0) << ");\n";
                        break;
                    case Instruction::UIToFP:
                        os << "    " << lhs << " = (" << tyName(t) << ")" << op(0) << ";\n";
                        break;
                    case Instruction::SIToFP:
                        os << "    " << lhs << " = (" << tyName(t) << ")(" << signedTy(st) << ")" << op(0) << ";\n";
                        break;
                    case Instruction::FPToUI:
                        os << "    " << lhs << " = (" << tyName(t) << ")" << op(0) << ";\n";
                        break;
                    case Instruction::FPToSI:
                        os << "    " << lhs << " = (" << tyName(t) << ")(" << signedTy(t) << ")" << op(0) << ";\n";
                        break;
                    case Instruction::FPExt:
                    case Instruction::FPTrunc:
                        os << "    " << lhs << " = (" << tyName(t) << ")" << op(0) << ";\n";
                        break;
                    default:
                        fprintf(stderr, "ll2c: cast\n");
                        exit(2);
                }
            }
            else if (auto* sel = dyn_cast<SelectInst>(&I))
            {
                os << "    " << lhs << " = " << op(0) << " ? " << op(1) << " : " << op(2) << ";\n";
            }
            else if (auto* fr = dyn_cast<FreezeInst>(&I))
            {
                os << "    " << lhs << " = " << op(0) << ";\n";
            }
            else if (auto* ev = dyn_cast<ExtractValueInst>(&I))
            {
                std::string e = op(0);
                Type* cur = ev->getAggregateOperand()->getType();
                for (unsigned ix : ev->indices())
                {
                    if (auto* st = dyn_cast<StructType>(cur))
                    {
                        e += ".f" + std::to_string(ix);
                        cur = st->getElementType(ix);
                    }
                    else
                    {
                        e += ".e[" + std::to_string(ix) + "]";
                        cur = cast<ArrayType>(cur)->getElementType();
                    }
                }
                os << "    " << lhs << " = " << e << ";\n";
            }
            else if (auto* iv = dyn_cast<InsertValueInst>(&I))
            {
                std::string e = lhs;
                Type* cur = iv->getAggregateOperand()->getType();
                for (unsigned ix : iv->indices())
                {
                    if (auto* st = dyn_cast<StructType>(cur))
                    {
                        e += ".f" + std::to_string(ix);
                        cur = st->getElementType(ix);
                    }
                    else
                    {
                        e += ".e[" + std::to_string(ix) + "]";
                        cur = cast<ArrayType>(cur)->getElementType();
                    }
                }
                if (isa<UndefValue>(iv->getAggregateOperand()))
                    os << "    memset(&" << lhs << ", 0, sizeof(" << lhs << "));\n";
                else
                    os << "    " << lhs << " = " << op(0) << ";\n";
                os << "    " << e << " = " << op(1) << ";\n";
            }
            else if (auto* call = dyn_cast<CallInst>(&I))
            {
                const Function* callee = call->getCalledFunction();
                if (!callee)  // direct call through a constant bitcast (type names differ after llvm-link)
                    callee = dyn_cast<Function>(call->getCalledOperand()->stripPointerCastsAndAliases());
                std::string name = callee ? callee->getName().str() : "";
                auto arg = [&](unsigned i) { return valueName(call->getArgOperand(i), fc); };
                std::string asg = lhs.empty() ? "    " : "    " + lhs + " = ";
                if (callee && callee->isIntrinsic())
                {
                    switch (callee->getIntrinsicID())
                    {
                        case Intrinsic::memcpy:
                        {
                            if (instrumentThisFunction)
                                os << "    " << notStatic(arg(0)) << "\n";
                            // whole-object copy of a typed object: emit a struct assignment (keeps CBMC's field sensitivity)
                            Type* td = typedPointee(call->getArgOperand(0), call->getArgOperand(2));
                            Type* ts = typedPointee(call->getArgOperand(1), call->getArgOperand(2));
                            if (typedMem && td && td == ts)
                            {
                                std::string tn = useTy(td);
                                os << "    *(" << tn << "*)" << valueName(call->getArgOperand(0)->stripPointerCasts(), fc) << " = *(" << tn << "*)"
                                   << valueName(call->getArgOperand(1)->stripPointerCasts(), fc) << ";\n";
                                break;
                            }
                            // whole typed object <-> raw bytes: leaf-wise typed accesses
                            if (typedMem && td && td != ts)
                            {
                                std::ostringstream tmp;
                                std::string tn = useTy(td);
                                if (emitLeafCopy(td, "(*(" + tn + "*)" + valueName(call->getArgOperand(0)->stripPointerCasts(), fc) + ")", arg(1), 0, true, tmp))
                                {
                                    os << tmp.str();
                                    break;
                                }
                            }
                            if (typedMem && ts && td != ts)
                            {
                                std::ostringstream tmp;
                                std::string tn = useTy(ts);
                                if (emitLeafCopy(ts, "(*(" + tn + "*)" + valueName(call->getArgOperand(1)->stripPointerCasts(), fc) + ")", arg(0), 0, false, tmp))
                                {
                                    os << tmp.str();
                                    break;
                                }
                            }
                            td = prefixPointee(call->getArgOperand(0), call->getArgOperand(2));
                            ts = prefixPointee(call->getArgOperand(1), call->getArgOperand(2));
                            if (typedMem && td && td == ts)
                            {
                                std::ostringstream tmp;
                                std::string tn = useTy(td);
                                if (emitPrefix(td, "(*(" + tn + "*)" + valueName(call->getArgOperand(0)->stripPointerCasts(), fc) + ")",
                                               "(*(" + tn + "*)" + valueName(call->getArgOperand(1)->stripPointerCasts(), fc) + ")",
                                               cast<ConstantInt>(call->getArgOperand(2))->getZExtValue(), tmp))
                                {
                                    os << tmp.str();
                                    break;
                                }
                            }
                            os << "    vp_memcpy((void*)" << arg(0) << ", (const void*)" << arg(1) << ", " << arg(2) << ");\n";
                            break;
                        }
                        case Intrinsic::memmove:
                            if (instrumentThisFunction)
                                os << "    " << notStatic(arg(0)) << "\n";
                            os << "    vp_memmove((void*)" << arg(0) << ", (const void*)" << arg(1) << ", " << arg(2) << ");\n";
                            break;
                        case Intrinsic::memset:
                        {
                            if (instrumentThisFunction)
                                os << "    " << notStatic(arg(0)) << "\n";
                            // zero-fill of a whole typed object: emit a typed zero assignment
                            Type* td = typedPointee(call->getArgOperand(0), call->getArgOperand(2));
                            auto* cv = dyn_cast<ConstantInt>(call->getArgOperand(1));
                            if (typedMem && td && cv && cv->isZero())
                            {
                                std::string tn = useTy(td);
                                os << "    *(" << tn << "*)" << valueName(call->getArgOperand(0)->stripPointerCasts(), fc) << " = (" << tn << "){0};\n";
                                break;
                            }
                            td = prefixPointee(call->getArgOperand(0), call->getArgOperand(2));
                            if (typedMem && td && cv && cv->isZero())
                            {
                                std::ostringstream tmp;
                                std::string tn = useTy(td);
                                if (emitPrefix(td, "(*(" + tn + "*)" + valueName(call->getArgOperand(0)->stripPointerCasts(), fc) + ")", "",
                                               cast<ConstantInt>(call->getArgOperand(2))->getZExtValue(), tmp))
                                {
                                    os << tmp.str();
                                    break;
                                }
                            }
                            os << "    vp_memset((void*)" << arg(0) << ", " << arg(1) << ", " << arg(2) << ");\n";
                            break;
                        }
                        case Intrinsic::bswap:
                        {
                            unsigned w = t->getIntegerBitWidth();
                            os << asg << "__builtin_bswap" << w << "(" << arg(0) << ");\n";
                            break;
                        }
                        case Intrinsic::fshl:
                        case Intrinsic::fshr:
                        {
                            unsigned w = t->getIntegerBitWidth();
                            bool left = callee->getIntrinsicID() == Intrinsic::fshl;
                            std::string a = widen(t, arg(0), false), b = widen(t, arg(1), false);
                            std::string s = "(" + widen(t, arg(2), false) + " % " + std::to_string(w) + ")";
                            std::string W = std::to_string(w);
                            if (w < 32)
                            {
                                // operate in 32-bit on the concatenation
                                std::string cat = "((" + a + " << " + W + ") | " + b + ")";
                                if (left)
                                    os << asg << castTo(t, "(" + cat + " << " + s + ") >> " + W) << ";\n";
                                else
                                    os << asg << castTo(t, cat + " >> " + s) << ";\n";
                            }
                            else
                            {
                                if (left)
                                    os << asg << "(" << s << " == 0 ? " << a << " : " << castTo(t, "(" + a + " << " + s + ") | (" + b + " >> (" + W + " - " + s + "))")
                                       << ");\n";
                                else
                                    os << asg << "(" << s << " == 0 ? " << b << " : " << castTo(t, "(" + a + " << (" + W + " - " + s + ")) | (" + b + " >> " + s + ")")
                                       << ");\n";
                            }
                            break;
                        }
                        case Intrinsic::umin:
                            os << asg << "(" << arg(0) << " < " << arg(1) << " ? " << arg(0) << " : " << arg(1) << ");\n";
                            break;
                        case Intrinsic::umax:
                            os << asg << "(" << arg(0) << " > " << arg(1) << " ? " << arg(0) << " : " << arg(1) << ");\n";
                            break;
                        case Intrinsic::smin:
                            os << asg << "(" << widen(t, arg(0), true) << " < " << widen(t, arg(1), true) << " ? " << arg(0) << " : " << arg(1) << ");\n";
                            break;
                        case Intrinsic::smax:
                            os << asg << "(" << widen(t, arg(0), true) << " > " << widen(t, arg(1), true) << " ? " << arg(0) << " : " << arg(1) << ");\n";
                            break;
                        case Intrinsic::ctlz:
                        case Intrinsic::cttz:
                        case Intrinsic::ctpop:
                        {
                            unsigned w = t->getIntegerBitWidth();
                            const char* b = callee->getIntrinsicID() == Intrinsic::ctlz ? "clz" : callee->getIntrinsicID() == Intrinsic::cttz ? "ctz" : "popcount";
                            if (callee->getIntrinsicID() == Intrinsic::ctpop)
                                os << asg << castTo(t, std::string("__builtin_popcountl((unsigned long)") + arg(0) + ")") << ";\n";
                            else if (callee->getIntrinsicID() == Intrinsic::ctlz)
                                os << asg << "(" << arg(0) << " == 0 ? " << w << " : " << castTo(t, std::string("__builtin_") + b + "l((unsigned long)" + arg(0) + ") - " + std::to_string(64 - w)) << ");\n";
                            else
                                os << asg << "(" << arg(0) << " == 0 ? " << w << " : " << castTo(t, std::string("__builtin_") + b + "l((unsigned long)" + arg(0) + ")") << ");\n";
                            break;
                        }
                        case Intrinsic::expect:
                            os << asg << arg(0) << ";\n";
                            break;
                        case Intrinsic::assume:
                            os << "    vp_llvm_assume(" << arg(0) << ");\n";
                            break;
                        case Intrinsic::trap:
                            os << "    vp_trap();\n";
                            break;
                        case Intrinsic::lifetime_start:
                        case Intrinsic::lifetime_end:
                        case Intrinsic::experimental_noalias_scope_decl:
                        case Intrinsic::dbg_value:
                        case Intrinsic::dbg_declare:
                        case Intrinsic::dbg_label:
                            break;
                        case Intrinsic::objectsize:
                            os << asg << castTo(t, "-1L") << ";\n";
                            break;
                        case Intrinsic::is_constant:
                            os << asg << "0;\n";
                            break;
                        case Intrinsic::abs:
                            os << asg << castTo(t, widen(t, arg(0), true) + " < 0 ? -" + widen(t, arg(0), true) + " : " + widen(t, arg(0), true)) << ";\n";
                            break;
                        case Intrinsic::uadd_with_overflow:
                        case Intrinsic::usub_with_overflow:
                        case Intrinsic::umul_with_overflow:
                        {
                            Type* et = call->getArgOperand(0)->getType();
                            const char* b = callee->getIntrinsicID() == Intrinsic::uadd_with_overflow ? "add" : callee->getIntrinsicID() == Intrinsic::usub_with_overflow ? "sub" : "mul";
                            os << "    { " << tyName(et) << " _r; " << lhs << ".f1 = __builtin_" << b << "_overflow(" << arg(0) << ", " << arg(1) << ", &_r); " << lhs
                               << ".f0 = _r; }\n";
                            break;
                        }
                        default:
                            fprintf(stderr, "ll2c: unsupported intrinsic %s\n", name.c_str());
                            exit(2);
                    }
                    continue;
                }
                if (name == "__CPROVER_assume" || name == "vp_assume")
                {
                    os << "    VP_ASSUME(" << arg(0) << ");\n";
                    continue;
                }
                if (name == "vp_assert")
                {
                    os << "    VP_ASSERT(" << arg(0) << ", " << stringLiteralOf(call->getArgOperand(1)) << ");\n";
                    continue;
                }
                if (name == "vp_reach")
                {
                    std::string l = stringLiteralOf(call->getArgOperand(0));
                    os << "    VP_REACH(\"REACH:" << l.substr(1) << ");\n";
                    continue;
                }
                std::string fn;
                if (callee)
                    fn = gvName(callee);
                else
                {
                    fn = "(" + valueName(call->getCalledOperand(), fc) + ")";
                    auto cands = dispatchCandidates(call);
                    if (!cands.empty())
                    {
                        // explicit dispatch over the type-compatible virtual functions
                        std::string fp = valueName(call->getCalledOperand(), fc);
                        os << "    ";
                        for (const Function* cf : cands)
                        {
                            os << "if ((void*)" << fp << " == (void*)&" << gvName(cf) << ") { " << (lhs.empty() ? "" : lhs + " = ") << gvName(cf) << "(";
                            for (unsigned i = 0; i < call->arg_size(); ++i)
                            {
                                std::string a = arg(i);
                                if (cf->getFunctionType()->getParamType(i) != call->getArgOperand(i)->getType())
                                    a = castTo(cf->getFunctionType()->getParamType(i), a);
                                os << (i ? ", " : "") << a;
                            }
                            os << "); } else ";
                        }
                        os << "{ __CPROVER_assert(0, \"indirect call target is a known virtual function\"); __CPROVER_assume(0); }\n";
                        continue;
                    }
                }
                if (callee && !lhs.empty() && callee->getReturnType() != t)
                {
                    if (t->isPointerTy() && callee->getReturnType()->isPointerTy())
                        asg = "    " + lhs + " = (" + tyName(t) + ")";
                    else
                    {
                        fprintf(stderr, "ll2c: call through bitcast with incompatible return type in %s\n", F.getName().str().c_str());
                        exit(2);
                    }
                }
                // Typed allocation: operator new whose result is used as T* is emitted as new(sizeof(T) * (n / sizeof(T))), so
                // that CBMC's allocation model creates an object of type T[] (struct-typed, pointer members stay pointer
                // symbols and are constant-propagated) instead of an untyped byte array.
                if (typedNew && (name == "_Znwm" || name == "_Znam") && call->arg_size() == 1)
                {
                    Type* elem = nullptr;
                    for (const User* u : call->users())
                        if (auto* bc = dyn_cast<BitCastInst>(u))
                            if (auto* pt = dyn_cast<PointerType>(bc->getType()))
                            {
                                Type* et = pt->getNonOpaquePointerElementType();
                                if (et->isStructTy() && et->isSized() && !cast<StructType>(et)->isOpaque())
                                {
                                    elem = et;
                                    break;
                                }
                            }
                    if (elem)
                    {
                        std::string tn = useTy(elem);
                        // the byte count is a multiple of sizeof(T) by construction (allocator<T>::allocate, new T); asserted
                        os << "    VP_ASSERT((" << arg(0) << ") % sizeof(" << tn << ") == 0, \"ll2c: typed allocation size is a multiple of the element size\");\n";
                        os << asg << fn << "(sizeof(" << tn << ") * ((" << arg(0) << ") / sizeof(" << tn << ")));\n";
                        ++typedNewCount;
                        continue;
                    }
                }
                os << asg << fn << "(";
                FunctionType* ft = call->getFunctionType();
                for (unsigned i = 0; i < call->arg_size(); ++i)
                {
                    std::string a = arg(i);
                    if (callee && i < callee->getFunctionType()->getNumParams() &&
                        callee->getFunctionType()->getParamType(i) != call->getArgOperand(i)->getType())
                        a = castTo(callee->getFunctionType()->getParamType(i), a);
                    os << (i ? ", " : "") << a;
                }
                (void) ft;
                os << ");\n";
            }
            else if (auto* br = dyn_cast<BranchInst>(&I))
            {
                if (br->isUnconditional())
                {
                    emitPhiCopies(&bb, br->getSuccessor(0), fc, os);
                    os << "    goto " << bbNames[br->getSuccessor(0)] << ";\n";
                }
                else
                {
                    os << "    if (" << op(0) << ") {\n";
                    emitPhiCopies(&bb, br->getSuccessor(0), fc, os);
                    os << "    goto " << bbNames[br->getSuccessor(0)] << "; } else {\n";
                    emitPhiCopies(&bb, br->getSuccessor(1), fc, os);
                    os << "    goto " << bbNames[br->getSuccessor(1)] << "; }\n";
                }
            }
            else if (auto* sw = dyn_cast<SwitchInst>(&I))
            {
                std::string c = op(0);
                bool firstCase = true;
                for (auto& cs : sw->cases())
                {
                    os << "    " << (firstCase ? "if" : "else if") << " (" << c << " == " << constExpr(cs.getCaseValue(), &fc, false) << ") {\n";
                    emitPhiCopies(&bb, cs.getCaseSuccessor(), fc, os);
                    os << "    goto " << bbNames[cs.getCaseSuccessor()] << "; }\n";
                    firstCase = false;
                }
                os << "    " << (firstCase ? "" : "else ") << "{\n";
                emitPhiCopies(&bb, sw->getDefaultDest(), fc, os);
                os << "    goto " << bbNames[sw->getDefaultDest()] << "; }\n";
            }
            else if (auto* ret = dyn_cast<ReturnInst>(&I))
            {
                if (ret->getReturnValue())
                    os << "    return " << op(0) << ";\n";
                else
                    os << "    return;\n";
            }
            else if (isa<UnreachableInst>(I))
            {
                os << "    vp_unreachable();\n";
            }
            else if (auto* rmw = dyn_cast<AtomicRMWInst>(&I))
            {
                std::string p = op(0), v = op(1);
                os << "    VP_ATOMIC_BEGIN " << lhs << " = *" << p << "; ";
                switch (rmw->getOperation())
                {
                    case AtomicRMWInst::Add: os << "*" << p << " = " << castTo(t, widen(t, lhs, false) + " + " + widen(t, v, false)) << ";"; break;
                    case AtomicRMWInst::Sub: os << "*" << p << " = " << castTo(t, widen(t, lhs, false) + " - " + widen(t, v, false)) << ";"; break;
                    case AtomicRMWInst::Xchg: os << "*" << p << " = " << v << ";"; break;
                    case AtomicRMWInst::And: os << "*" << p << " = " << castTo(t, widen(t, lhs, false) + " & " + widen(t, v, false)) << ";"; break;
                    case AtomicRMWInst::Or: os << "*" << p << " = " << castTo(t, widen(t, lhs, false) + " | " + widen(t, v, false)) << ";"; break;
                    default:
                        fprintf(stderr, "ll2c: atomicrmw op\n");
                        exit(2);
                }
                os << " VP_ATOMIC_END\n";
            }
            else if (auto* cx = dyn_cast<AtomicCmpXchgInst>(&I))
            {
                std::string p = op(0), cmp = op(1), nv = op(2);
                os << "    VP_ATOMIC_BEGIN " << lhs << ".f0 = *" << p << "; " << lhs << ".f1 = (" << lhs << ".f0 == " << cmp << "); if (" << lhs
                   << ".f1) *" << p << " = " << nv << "; VP_ATOMIC_END\n";
            }
            else if (isa<FenceInst>(I))
            {
            }
            else
            {
                std::string s;
                raw_string_ostream ros(s);
                I.print(ros);
                fprintf(stderr, "ll2c: unsupported instruction %s\n", s.c_str());
                exit(2);
            }
        }
    }

    // signature
    out << "\n/* " << F.getName().str() << " */\n";
    out << useTy(F.getReturnType()) << " " << gvName(&F) << "(";
    bool firstArg = true;
    for (const Argument& a : F.args())
    {
        out << (firstArg ? "" : ", ") << useTy(a.getType()) << " " << valueName(&a, fc);
        firstArg = false;
    }
    if (F.isVarArg())
        out << (firstArg ? "" : ", ") << "...";
    else if (firstArg)
        out << "void";
    out << ")\n{\n" << fc.decls.str() << fc.body.str() << "}\n";
}

static std::set<const GlobalValue*> reachable;
static void reachConst(const Constant* c, std::vector<const GlobalValue*>& work, std::set<const Constant*>& seen)
{
    if (!seen.insert(c).second)
        return;
    if (auto* ga = dyn_cast<GlobalAlias>(c))
    {
        reachConst(ga->getAliasee(), work, seen);
        return;
    }
    if (auto* gv = dyn_cast<GlobalValue>(c))
    {
        if (reachable.insert(gv).second)
            work.push_back(gv);
        return;
    }
    for (unsigned i = 0; i < c->getNumOperands(); ++i)
        if (auto* oc = dyn_cast<Constant>(c->getOperand(i)))
            reachConst(oc, work, seen);
}

static void computeReachable(Module& M, const std::vector<std::string>& entries)
{
    std::vector<const GlobalValue*> work;
    std::set<const Constant*> seen;
    for (auto& e : entries)
    {
        Function* f = M.getFunction(e);
        if (!f)
        {
            fprintf(stderr, "ll2c: entry %s not found\n", e.c_str());
            exit(2);
        }
        reachConst(f, work, seen);
    }
    while (!work.empty())
    {
        const GlobalValue* g = work.back();
        work.pop_back();
        if (auto* gv = dyn_cast<GlobalVariable>(g))
        {
            if (gv->hasInitializer())
                reachConst(gv->getInitializer(), work, seen);
        }
        else if (auto* f = dyn_cast<Function>(g))
        {
            for (const BasicBlock& bb : *f)
                for (const Instruction& I : bb)
                    for (unsigned i = 0; i < I.getNumOperands(); ++i)
                        if (auto* c = dyn_cast<Constant>(I.getOperand(i)))
                            reachConst(c, work, seen);
        }
    }
}

static std::string jsonEscape(const std::string& s)
{
    std::string r;
    for (char c : s)
    {
        if (c == '"' || c == '\\')
            r += '\\';
        r += c;
    }
    return r;
}

int main(int argc, char** argv)
{
    if (argc < 2)
    {
        fprintf(stderr, "usage: ll2c in.ll [--no-lines] [--entry f]... [--funcs-out file] > out.c\n");
        return 2;
    }
    std::vector<std::string> entries;
    std::string funcsOut;
    for (int i = 2; i < argc; ++i)
    {
        std::string a = argv[i];
        if (a == "--no-lines")
            emitLines = false;
        else if (a == "--entry" && i + 1 < argc)
            entries.push_back(argv[++i]);
        else if (a == "--funcs-out" && i + 1 < argc)
            funcsOut = argv[++i];
        else if (a == "--ovf")
            checkOverflow = true;
        else if (a == "--ovf-prefix" && i + 1 < argc)
            ovfPrefix = argv[++i];
        else if (a == "--untyped-new")
            typedNew = false;
        else if (a == "--untyped-mem")
            typedMem = false;
        else if (a == "--bytewise-wire")
            bytewiseWire = true;
        else if (a == "--static-writes")
            checkStaticWrites = true;
        else if (a == "--static-set" && i + 1 < argc)
            staticSetFile = argv[++i];
        else if (a == "--list-statics")
            listStatics = true;
        else
        {
            fprintf(stderr, "ll2c: unknown option %s\n", a.c_str());
            return 2;
        }
    }
    LLVMContext ctx;
    SMDiagnostic err;
    std::unique_ptr<Module> M = parseIRFile(argv[1], err, ctx);
    if (!M)
    {
        err.print("ll2c", errs());
        return 2;
    }
    DL = &M->getDataLayout();
    if (listStatics)
    {
        // objects with static storage duration defined in this module (thread_local ones are per-thread and left out),
        // and the functions it defines: the C19 footprint check instruments writes of these functions
        for (const GlobalVariable& g : M->globals())
            if (g.hasInitializer() && !g.getName().startswith("llvm.") && !g.isThreadLocal())
                printf("G %d %s\n", g.isConstant() ? 0 : 1, g.getName().str().c_str());
        for (const Function& f : *M)
            if (!f.isDeclaration())
                printf("F %s\n", f.getName().str().c_str());
        return 0;
    }
    if (!staticSetFile.empty())
    {
        FILE* sf = fopen(staticSetFile.c_str(), "r");
        char kind;
        int w;
        char name[4096];
        if (!sf)
        {
            fprintf(stderr, "ll2c: cannot open %s\n", staticSetFile.c_str());
            return 2;
        }
        char line[5000];
        while (fgets(line, sizeof line, sf))
        {
            if (sscanf(line, "G %d %4095s", &w, name) == 2)
                staticSetGlobals.insert(name);
            else if (sscanf(line, "%c %4095s", &kind, name) == 2 && kind == 'F')
                staticSetFunctions.insert(name);
        }
        fclose(sf);
    }
    bool prune = !entries.empty();
    if (prune)
        computeReachable(*M, entries);
    auto keep = [&](const GlobalValue& g) { return !prune || reachable.count(&g) != 0; };

    std::ostringstream protos, globals, funcs;

    // reserve names
    for (const GlobalVariable& g : M->globals())
        if (keep(g))
            gvName(&g);
    for (const Function& f : *M)
        if (keep(f))
            gvName(&f);

    static const std::set<std::string> special = {"__CPROVER_assume", "vp_assume", "vp_assert", "vp_reach", "malloc", "free", "memcpy", "memmove", "memset"};
    for (const Function& f : *M)
    {
        if (f.isIntrinsic() || !keep(f))
            continue;
        if (special.count(f.getName().str()) && f.isDeclaration())
            continue;
        FunctionType* ft = f.getFunctionType();
        protos << useTy(ft->getReturnType()) << " " << gvName(&f) << "(";
        for (unsigned i = 0; i < ft->getNumParams(); ++i)
            protos << (i ? ", " : "") << useTy(ft->getParamType(i));
        if (ft->isVarArg())
            protos << (ft->getNumParams() ? ", " : "") << "...";
        else if (!ft->getNumParams())
            protos << "void";
        protos << ");\n";
    }
    // globals: declarations first (they may reference each other), then definitions
    for (const GlobalVariable& g : M->globals())
    {
        if (g.getName().startswith("llvm.") || !keep(g))
            continue;
        Type* vt = g.getValueType();
        globals << "extern " << useTy(vt) << " " << gvName(&g) << ";\n";
    }
    for (const GlobalVariable& g : M->globals())
    {
        if (g.getName().startswith("llvm.") || !keep(g))
            continue;
        if (!g.hasInitializer())
            continue;
        Type* vt = g.getValueType();
        globals << useTy(vt) << " " << gvName(&g) << " = " << constExpr(g.getInitializer(), nullptr, true) << ";\n";
        // writable objects with static storage that come from the module (C19 footprint argument)
        if (!g.isConstant())
            staticObjects.push_back(&g);
    }
    {
        std::set<const Function*> fs;
        std::set<const Constant*> seen;
        for (const GlobalVariable& g : M->globals())
            if (g.hasInitializer() && keep(g))
                collectFunctions(g.getInitializer(), fs, seen);
        for (const Function& f : *M)
            if (fs.count(&f))
                vtableFunctions.push_back(&f);
        for (const GlobalVariable& g : M->globals())
        {
            if (!g.hasInitializer() || !g.getName().startswith("_ZTV") || !keep(g))
                continue;
            auto* cs = dyn_cast<ConstantStruct>(g.getInitializer());
            if (!cs || cs->getNumOperands() != 1)
                continue;
            auto* ca = dyn_cast<ConstantArray>(cs->getOperand(0));
            if (!ca)
                continue;
            std::vector<const Function*> vt;
            for (unsigned i = 2; i < ca->getNumOperands(); ++i)
                vt.push_back(dyn_cast<Function>(ca->getOperand(i)->stripPointerCasts()));
            vtables.push_back(vt);
        }
    }
    FILE* fo = funcsOut.empty() ? nullptr : fopen(funcsOut.c_str(), "w");
    if (fo)
        fprintf(fo, "{\"functions\": [\n");
    bool firstF = true;
    for (const Function& f : *M)
    {
        if (f.isDeclaration() || !keep(f))
            continue;
        emitFunction(f, funcs);
        if (fo)
        {
            std::string file;
            if (auto* sp = f.getSubprogram())
            {
                file = sp->getFilename().str();
                if (!file.empty() && file[0] != '/')
                    file = sp->getDirectory().str() + "/" + file;
            }
            unsigned ninst = 0;
            for (const BasicBlock& bb : f)
                ninst += bb.size();
            fprintf(fo, "%s  {\"name\": \"%s\", \"file\": \"%s\", \"insts\": %u}", firstF ? "" : ",\n", jsonEscape(f.getName().str()).c_str(), jsonEscape(file).c_str(), ninst);
            firstF = false;
        }
    }
    if (fo)
    {
        fprintf(fo, "\n], \"static_objects\": [");
        for (size_t i = 0; i < staticObjects.size(); ++i)
            fprintf(fo, "%s\"%s\"", i ? ", " : "", jsonEscape(staticObjects[i]->getName().str()).c_str());
        fprintf(fo, "], \"static_write_checks\": %u, \"overflow_checks\": %u}\n", staticWriteChecks, overflowChecks);
        fclose(fo);
    }

    printf("/* generated by ll2c from %s */\n#include \"vp_rt.h\"\n", argv[1]);
    std::string notStaticMacro = "#define VP_NOT_STATIC(p) (1";
    if (checkStaticWrites)
        for (const GlobalVariable& g : M->globals())
            if (keep(g) && g.hasInitializer() && !g.isThreadLocal() && staticSetGlobals.count(g.getName().str()))
                notStaticMacro += " && !VP_SAME_OBJECT((p), &" + gvName(&g) + ")";
    notStaticMacro += ")\n";
    printf("%s\n", typeDecls.str().c_str());
    for (auto& a : layoutAsserts)
        printf("%s\n", a.c_str());
    printf("%s\n%s\n%s\n%s\n", protos.str().c_str(), globals.str().c_str(), notStaticMacro.c_str(), funcs.str().c_str());
    return 0;
}
