"""Driver core: /repo -> LLVM IR -> ll2c -> C -> CBMC; result classification; native replay; evidence.

Nothing is cached between runs: every invocation recompiles /repo's working tree.
"""
import concurrent.futures as cf
import hashlib
import json
import os
import re
import resource
import shutil
import subprocess
import sys
import threading
import time

VERIF = os.path.dirname(os.path.dirname(os.path.dirname(os.path.abspath(__file__))))
REPO = os.environ.get("VP_REPO", "/repo")
RT = os.path.join(VERIF, "rt")
HARNESS = os.path.join(VERIF, "harness")
LL2C = os.path.join(VERIF, "tools", "ll2c", "ll2c")
GUARD = "ASAM_CMP_VERIF"

CLANG_FLAGS = [
    "-std=c++17", "-O1", "-fno-exceptions", "-fno-rtti", "-fno-vectorize", "-fno-slp-vectorize",
    "-fno-unroll-loops", "-gline-tables-only", "-D" + GUARD, "-DVP_CBMC", "-Wno-everything",
]
CBMC_BASE = [
    "--verbosity", "8",
    "--unwinding-assertions", "--no-malloc-may-fail", "--drop-unused-functions",
    "--max-field-sensitivity-array-size", "1024", "--no-standard-checks",
    "--div-by-zero-check",
]
CBMC_MEM = ["--pointer-check", "--bounds-check"]
# variant "str": std::basic_string<char> is instantiated from the headers (no extern template), so that std::string has IR
# "o0": no optimisation at all. clang -O1 resolves a partially initialised local (LLVM undef) to a convenient constant, which
# hides exactly the uninitialised reads C20 is about; at -O0 the local stays an uninitialised stack object.
VARIANT_FLAGS = {"str": ["-D_GLIBCXX_EXTERN_TEMPLATE=0", "-DVP_STRVARIANT=1"], "o0": ["-O0", "-Xclang", "-disable-O0-optnone"]}
# passes run on the linked module of a variant: promotion of plain scalar locals and inlining only - nothing that folds undef
VARIANT_OPT = {"o0": os.environ.get("VP_O0_PASSES", "mem2reg")}

TOTAL_MEM_GB = int(os.environ.get("VP_TOTAL_MEM_GB", "52"))
WITNESS_REPLAYS = int(os.environ.get("VP_WITNESS_REPLAYS", "2"))
NCPU = int(os.environ.get("VP_JOBS", str(os.cpu_count() or 8)))


def sh(cmd, **kw):
    return subprocess.run(cmd, stdout=subprocess.PIPE, stderr=subprocess.PIPE, text=True, **kw)


def demangle(names):
    if not names:
        return {}
    p = subprocess.run(["c++filt"], input="\n".join(names), stdout=subprocess.PIPE, text=True)
    out = p.stdout.split("\n")
    return {n: out[i] if i < len(out) else n for i, n in enumerate(names)}


class Job:
    """One solver query: a harness entry point at one concrete shape."""

    def __init__(self, harness, entry, defs=None, unwind=2, unwindset=None, mem=True, tier="quick",
                 mem_gb=4, timeout=None, variant="real", in_max=256, object_bits=10, extra=None,
                 note="", ll2c_opts=None, sym="", outside="", cdefs=None):
        self.harness = harness
        self.entry = entry
        self.defs = dict(defs or {})
        self.unwind = unwind
        self.unwindset = dict(unwindset or {})   # {(function-substring, line or None): bound} or {"name.N": bound}
        self.mem = mem
        self.tier = tier
        self.mem_gb = mem_gb
        self.timeout = timeout
        self.variant = variant
        self.in_max = in_max
        self.object_bits = object_bits
        self.extra = list(extra or [])
        self.note = note
        self.ll2c_opts = list(ll2c_opts or [])
        self.sym = sym
        self.outside = outside
        self.cdefs = dict(cdefs or {})   # C-level shape constants, bound after translation (goto-cc -D): no clang/ll2c rerun per shape

    def unit_key(self):
        return (self.harness, tuple(sorted(self.defs.items())), self.variant, tuple(self.ll2c_opts))

    def shape(self):
        return ",".join("%s=%s" % kv for kv in sorted(list(self.defs.items()) + list(self.cdefs.items())))

    def name(self):
        s = self.shape()
        return "%s:%s%s" % (self.harness.replace(".cpp", ""), self.entry, "[" + s + "]" if s else "")


class Ctx:
    def __init__(self, prop, tier, keep=False):
        self.prop = prop
        self.tier = tier
        self.keep = keep
        self.build = os.path.join(VERIF, "build", "%s-%s-%d" % (prop, tier, os.getpid()))
        os.makedirs(self.build, exist_ok=True)
        self.lock = threading.Lock()
        self.unit_locks = {}
        self.units = {}
        self.lib = {}
        self.native_lib = {}
        self.mem_avail = TOTAL_MEM_GB
        self.mem_cv = threading.Condition()
        self.t0 = time.time()
        self.log_lines = []

    def log(self, *a):
        msg = " ".join(str(x) for x in a)
        with self.lock:
            self.log_lines.append(msg)
            print(msg, flush=True)

    def cleanup(self):
        if not self.keep:
            shutil.rmtree(self.build, ignore_errors=True)

    # ---------------------------------------------------------------- IR of the library
    def lib_ir(self, variant):
        with self.lock:
            lk = self.unit_locks.setdefault(("lib", variant), threading.Lock())
        with lk:
            if variant in self.lib:
                return self.lib[variant]
            d = os.path.join(self.build, "lib-" + variant)
            os.makedirs(d, exist_ok=True)
            srcs = sorted(f for f in os.listdir(os.path.join(REPO, "src")) if f.endswith(".cpp"))
            inc = ["-I" + os.path.join(REPO, "include"), "-I" + RT]
            if variant == "mapmodel":
                inc = ["-I" + os.path.join(RT, "stubinc")] + inc
            vflags = VARIANT_FLAGS.get(variant, [])

            def comp(src):
                out = os.path.join(d, src.replace(".cpp", ".bc"))
                r = sh(["clang++-14"] + CLANG_FLAGS + vflags + inc + ["-c", "-emit-llvm", os.path.join(REPO, "src", src), "-o", out])
                if r.returncode != 0:
                    raise RuntimeError("clang failed on %s:\n%s" % (src, r.stderr[-3000:]))
                return out

            with cf.ThreadPoolExecutor(NCPU) as ex:
                bcs = list(ex.map(comp, srcs))
            mo = os.path.join(d, "models.bc")
            r = sh(["clang++-14"] + CLANG_FLAGS + vflags + ["-fno-builtin"] + inc + ["-c", "-emit-llvm", os.path.join(RT, "models.cpp"), "-o", mo])
            if r.returncode != 0:
                raise RuntimeError("clang failed on models.cpp:\n" + r.stderr[-3000:])
            lib = os.path.join(d, "lib.bc")
            r = sh(["llvm-link-14", "-o", lib] + bcs + [mo])
            if r.returncode != 0:
                raise RuntimeError("llvm-link failed:\n" + r.stderr[-3000:])
            self.lib[variant] = (lib, srcs)
            return self.lib[variant]

    def statics_file(self, variant):
        """objects with static storage duration and functions defined by the library's IR (C19 footprint check)"""
        lib, _ = self.lib_ir(variant)
        path = os.path.join(os.path.dirname(lib), "statics.txt")
        with self.lock:
            if not os.path.exists(path):
                r = sh([LL2C, lib, "--list-statics"])
                if r.returncode != 0:
                    raise RuntimeError("ll2c --list-statics failed: " + r.stderr[-1000:])
                open(path, "w").write(r.stdout)
        return path

    # ---------------------------------------------------------------- one translation unit per (harness, shape)
    def unit(self, job, entries):
        key = job.unit_key()
        with self.lock:
            lk = self.unit_locks.setdefault(key, threading.Lock())
        with lk:
            if key in self.units:
                return self.units[key]
            lib, _ = self.lib_ir(job.variant)
            h = hashlib.sha1(repr(key).encode()).hexdigest()[:12]
            d = os.path.join(self.build, "u-" + h)
            os.makedirs(d, exist_ok=True)
            inc = ["-I" + os.path.join(REPO, "include"), "-I" + RT, "-I" + os.path.join(VERIF, "spec"), "-I" + HARNESS]
            if job.variant == "mapmodel":
                inc = ["-I" + os.path.join(RT, "stubinc")] + inc
            defs = ["-D%s=%s" % kv for kv in sorted(job.defs.items())]
            hb = os.path.join(d, "h.bc")
            r = sh(["clang++-14"] + CLANG_FLAGS + VARIANT_FLAGS.get(job.variant, []) + inc + defs + ["-c", "-emit-llvm", os.path.join(HARNESS, job.harness), "-o", hb])
            if r.returncode != 0:
                raise RuntimeError("clang failed on harness %s %s:\n%s" % (job.harness, defs, r.stderr[-4000:]))
            mod = os.path.join(d, "m.bc")
            r = sh(["llvm-link-14", "-o", mod, lib, "--override=" + hb])
            if r.returncode != 0:
                raise RuntimeError("llvm-link failed:\n" + r.stderr[-3000:])
            if job.variant in VARIANT_OPT:
                r = sh(["opt-14", "-passes=" + VARIANT_OPT[job.variant], mod, "-o", mod])
                if r.returncode != 0:
                    raise RuntimeError("opt failed:\n" + r.stderr[-3000:])
            gen = os.path.join(d, "gen.c")
            funcs = os.path.join(d, "funcs.json")
            cmd = [LL2C, mod, "--funcs-out", funcs] + job.ll2c_opts
            if "--static-writes" in job.ll2c_opts:
                cmd += ["--static-set", self.statics_file(job.variant)]
            for e in entries:
                cmd += ["--entry", e]
            with open(gen, "w") as f:
                r = subprocess.run(cmd, stdout=f, stderr=subprocess.PIPE, text=True)
            if r.returncode != 0:
                raise RuntimeError("ll2c failed on %s: %s" % (job.name(), r.stderr[-3000:]))
            fj = json.load(open(funcs))
            u = {"dir": d, "gen": gen, "funcs": fj, "loops": None, "gbs": {}}
            self.units[key] = u
            return u

    def goto_binary(self, job, u):
        """the goto binary for this job's C-level constants (cdefs) and input budget"""
        ck = (tuple(sorted(job.cdefs.items())), job.in_max)
        with self.lock:
            lk = self.unit_locks.setdefault((id(u), ck), threading.Lock())
        with lk:
            if ck in u["gbs"]:
                return u["gbs"][ck]
            h = hashlib.sha1(repr(ck).encode()).hexdigest()[:10]
            unit_c = os.path.join(u["dir"], "unit.c")
            if not os.path.exists(unit_c):
                with open(unit_c, "w") as f:
                    f.write(open(u["gen"]).read())
                    f.write("\n#line 1 \"vp_env_cbmc.c\"\n")
                    f.write(open(os.path.join(RT, "vp_env_cbmc.c")).read())
            gb = os.path.join(u["dir"], "unit-%s.gb" % h)
            cd = ["-D%s=%s" % kv for kv in sorted(job.cdefs.items())]
            r = sh(["goto-cc", "-I" + RT, "-DVP_CBMC_BUILD", "-DVP_IN_MAX=%d" % job.in_max] + cd + ["-o", gb, unit_c])
            if r.returncode != 0:
                raise RuntimeError("goto-cc failed on %s:\n%s" % (job.name(), (r.stdout + r.stderr)[-4000:]))
            u["gbs"][ck] = gb
            return gb

    def loops(self, u):
        if u["loops"] is None:
            r = sh(["cbmc", "--show-loops", "--json-ui", next(iter(u["gbs"].values()))])
            loops = []
            try:
                for el in json.loads(r.stdout):
                    if isinstance(el, dict) and "loops" in el:
                        loops = el["loops"]
            except Exception:
                pass
            u["loops"] = loops
        return u["loops"]

    def resolve_unwindset(self, job, u):
        out = {"vp_init.0": job.in_max + 1}
        for k, v in job.unwindset.items():
            if isinstance(k, str):
                out[k] = v
                continue
            fsub, line = k
            hit = False
            for lp in self.loops(u):
                sl = lp.get("sourceLocation", {})
                fn = sl.get("function", "")
                if fsub in fn and (line is None or str(line) == str(sl.get("line"))):
                    out[lp["name"]] = v
                    hit = True
            if not hit and line is not None:
                # loop moved (source edited): fall back to every loop of the function
                for lp in self.loops(u):
                    if fsub in lp.get("sourceLocation", {}).get("function", ""):
                        out[lp["name"]] = max(v, out.get(lp["name"], 0))
        return out

    # ---------------------------------------------------------------- memory-aware scheduling
    def acquire(self, gb):
        with self.mem_cv:
            while self.mem_avail < gb:
                self.mem_cv.wait()
            self.mem_avail -= gb

    def release(self, gb):
        with self.mem_cv:
            self.mem_avail += gb
            self.mem_cv.notify_all()


def _limit(gb):
    def f():
        lim = int(gb * (1 << 30))
        resource.setrlimit(resource.RLIMIT_AS, (lim, lim))
        try:
            # CBMC's expression walkers recurse once per element of an array copy; 8 MiB of stack ends at ~6000 bytes
            resource.setrlimit(resource.RLIMIT_STACK, (1 << 30, resource.getrlimit(resource.RLIMIT_STACK)[1]))
        except (ValueError, OSError):
            pass
        os.setsid()
    return f


def run_cbmc(ctx, job, u, trace_property=None):
    ctx.goto_binary(job, u)
    uw = ctx.resolve_unwindset(job, u)
    cmd = ["cbmc", ctx.goto_binary(job, u), "--function", job.entry, "--object-bits", str(job.object_bits)] + CBMC_BASE
    if job.mem:
        cmd += CBMC_MEM
    cmd += ["--unwind", str(job.unwind), "--unwindset", ",".join("%s:%d" % kv for kv in sorted(uw.items()))]
    cmd += job.extra
    if trace_property:
        cmd += ["--trace", "--property", trace_property]
    else:
        cmd += ["--json-ui"]
    if ctx.keep:
        open(os.path.join(u["dir"], "cmd-%s.txt" % job.entry), "w").write(" ".join(cmd) + "\n")
    timeout = job.timeout or (300 if ctx.tier == "quick" else 1800)
    t0 = time.time()
    ctx.acquire(job.mem_gb)
    try:
        p = subprocess.Popen(cmd, stdout=subprocess.PIPE, stderr=subprocess.PIPE, text=True, preexec_fn=_limit(job.mem_gb * 1.5 + 2))
        try:
            out, err = p.communicate(timeout=timeout)
            status = "done"
        except subprocess.TimeoutExpired:
            try:
                os.killpg(p.pid, 9)
            except Exception:
                p.kill()
            out, err = p.communicate()
            status = "timeout"
    finally:
        ctx.release(job.mem_gb)
    ru = resource.getrusage(resource.RUSAGE_CHILDREN)
    return {"cmd": cmd, "out": out, "err": err, "rc": p.returncode, "status": status, "wall": time.time() - t0, "maxrss_kb": ru.ru_maxrss}


def parse_json_ui(out):
    """-> (results list, stats dict, errors list)"""
    results, stats, errors = [], {}, []
    try:
        arr = json.loads(out)
    except Exception:
        # truncated output (killed): try to salvage nothing
        return None, stats, ["unparseable CBMC output"]
    for el in arr:
        if not isinstance(el, dict):
            continue
        if "result" in el:
            results = el["result"]
        if el.get("messageType") == "ERROR":
            errors.append(el.get("messageText", ""))
        mt = el.get("messageText", "")
        m = re.search(r"(\d+) variables, (\d+) clauses", mt)
        if m:
            stats["variables"] = max(stats.get("variables", 0), int(m.group(1)))
            stats["clauses"] = max(stats.get("clauses", 0), int(m.group(2)))
        m = re.search(r"Runtime decision procedure: ([0-9.]+)s", mt)
        if m:
            stats["solver_s"] = stats.get("solver_s", 0.0) + float(m.group(1))
        m = re.search(r"Runtime Symex: ([0-9.]+)s", mt)
        if m:
            stats["symex_s"] = float(m.group(1))
        m = re.search(r"size of program expression: (\d+) steps", mt)
        if m:
            stats["steps"] = int(m.group(1))
        m = re.search(r"Generated (\d+) VCC\(s\), (\d+) remaining after simplification", mt)
        if m:
            stats["vccs"] = int(m.group(1))
            stats["vccs_remaining"] = int(m.group(2))
        if "cProverStatus" in el:
            stats["status"] = el["cProverStatus"]
    return results, stats, errors


def extract_input(trace_text, in_max, pname=None):
    if pname:
        # several traces may be printed; keep the one of the property of interest
        i = trace_text.find("Trace for %s:" % pname)
        if i >= 0:
            j = trace_text.find("\nTrace for ", i + 10)
            trace_text = trace_text[i:j if j >= 0 else len(trace_text)]
    vals = {}
    for m in re.finditer(r"^\s*vp_in\[(\d+)l?\]=(\d+)", trace_text, re.M):
        vals[int(m.group(1))] = int(m.group(2)) & 0xFF
    # array-wide assignment form: vp_in={ 1, 2, ... }
    for m in re.finditer(r"^\s*vp_in=\{([^}]*)\}", trace_text, re.M):
        for i, tok in enumerate(m.group(1).split(",")):
            tok = tok.strip()
            if re.fullmatch(r"\d+", tok):
                vals.setdefault(i, int(tok) & 0xFF)
    return bytes(vals.get(i, 0) for i in range(in_max))


# -------------------------------------------------------------------- native replay
def native_lib(ctx, variant, mode="asan"):
    """mode 'asan': ASan+UBSan build; mode 'plain': no instrumentation (run under valgrind memcheck for definedness)"""
    key = variant if mode == "asan" else variant + "+" + mode
    with ctx.lock:
        lk = ctx.unit_locks.setdefault(("native", key), threading.Lock())
    with lk:
        if key in ctx.native_lib:
            return ctx.native_lib[key]
        d = os.path.join(ctx.build, "native-" + key)
        os.makedirs(d, exist_ok=True)
        srcs = sorted(f for f in os.listdir(os.path.join(REPO, "src")) if f.endswith(".cpp"))
        inc = ["-I" + os.path.join(REPO, "include"), "-I" + RT]
        if variant == "mapmodel":
            inc = ["-I" + os.path.join(RT, "stubinc")] + inc
        flags = ["-std=c++17", "-O0", "-g", "-fsanitize=address,undefined", "-fno-sanitize=vptr,alignment,nonnull-attribute", "-fno-omit-frame-pointer", "-D" + GUARD, "-DVP_NATIVE", "-w"]
        if mode == "plain":
            flags = ["-std=c++17", "-O0", "-g", "-fno-omit-frame-pointer", "-D" + GUARD, "-DVP_NATIVE", "-w"]

        def comp(src):
            out = os.path.join(d, os.path.basename(src).replace(".cpp", ".o"))
            r = sh(["g++"] + flags + inc + ["-c", src, "-o", out])
            if r.returncode != 0:
                raise RuntimeError("g++ failed on %s:\n%s" % (src, r.stderr[-3000:]))
            return out

        with cf.ThreadPoolExecutor(NCPU) as ex:
            objs = list(ex.map(comp, [os.path.join(REPO, "src", s) for s in srcs] + [os.path.join(RT, "replay_rt.cpp")]))
        ctx.native_lib[key] = (objs, flags, inc)
        return ctx.native_lib[key]


def native_replay(ctx, job, input_bytes, tag, mode="asan"):
    """Compile the same harness natively against /repo's sources and run it on the recorded input."""
    objs, flags, inc = native_lib(ctx, job.variant, mode)
    d = os.path.join(ctx.build, "replay-" + hashlib.sha1((job.name() + tag + mode).encode()).hexdigest()[:10])
    os.makedirs(d, exist_ok=True)
    main = os.path.join(d, "main.cpp")
    with open(main, "w") as f:
        f.write('#define VP_NATIVE_MAIN 1\nextern "C" void %s(); extern "C" int vp_replay_failed();\nint main(){ %s(); return vp_replay_failed(); }\n' % (job.entry, job.entry))
        f.write(open(os.path.join(RT, "vp_cdefs.h")).read())
    defs = ["-D%s=%s" % kv for kv in sorted(list(job.defs.items()) + list(job.cdefs.items()))]
    exe = os.path.join(d, "replay")
    inc2 = inc + ["-I" + os.path.join(VERIF, "spec"), "-I" + HARNESS]
    # objects that the harness overrides (weak cut of library functions) are not an issue natively: cuts are VP_CBMC-only
    r = sh(["g++"] + flags + inc2 + defs + [os.path.join(HARNESS, job.harness), main] + objs + ["-o", exe])
    if r.returncode != 0:
        return {"built": False, "log": r.stderr[-3000:]}
    inp = os.path.join(d, "input.bin")
    open(inp, "wb").write(input_bytes)
    env = dict(os.environ, VP_REPLAY_INPUT=inp, ASAN_OPTIONS="detect_leaks=0:abort_on_error=0:allocator_may_return_null=1:max_allocation_size_mb=4096", UBSAN_OPTIONS="print_stacktrace=0")
    run = [exe] if mode == "asan" else ["valgrind", "-q", "--error-exitcode=97", "--undef-value-errors=yes", "--track-origins=no", "--error-limit=no", exe]
    try:
        p = subprocess.run(run, stdout=subprocess.PIPE, stderr=subprocess.STDOUT, text=True, env=env, timeout=60 if mode == "asan" else 300, errors="replace")
        out, rc, to = p.stdout, p.returncode, False
    except subprocess.TimeoutExpired as e:
        out, rc, to = (e.stdout or b"").decode(errors="replace") if isinstance(e.stdout, bytes) else (e.stdout or ""), -1, True
    return {"built": True, "out": out, "rc": rc, "timeout": to}


def confirms(rep, desc):
    """Does the native run reproduce the failure CBMC reported?"""
    if not rep.get("built"):
        return False, "replay build failed"
    out = rep["out"]
    if "VP_ASSUME_VIOLATED" in out:
        return False, "replay violated a harness assumption"
    if rep.get("timeout"):
        return True, "native run does not terminate (60 s)"
    failed = re.findall(r"VP_ASSERT_FAILED: (.*)", out)
    if desc in failed:
        return True, "native assertion failure: " + desc
    san = re.search(r"(ERROR: AddressSanitizer[^\n]*|runtime error:[^\n]*|SUMMARY: [^\n]*Sanitizer[^\n]*)", out)
    if san:
        return True, "sanitizer: " + san.group(1)[:200]
    if rep["rc"] < 0 or rep["rc"] >= 128:
        return True, "native run crashed (rc %d)" % rep["rc"]
    if failed:
        return True, "native assertion failure (other label): " + failed[0]
    return False, "native run finished without reproducing"


# -------------------------------------------------------------------- known findings
def load_findings():
    p = os.path.join(VERIF, "known_findings.json")
    if not os.path.exists(p):
        return []
    return [f for f in json.load(open(p)).get("findings", []) if f.get("status") == "open"]


def match_finding(findings, prop, job, res):
    sl = res.get("sourceLocation", {}) or {}
    for f in findings:
        if f["property"] != prop:
            continue
        m = f["match"]
        if "entry" in m and not re.search(m["entry"], job.entry):
            continue
        if "desc" in m and not re.search(m["desc"], res.get("description", "")):
            continue
        if "file" in m and not sl.get("file", "").endswith(m["file"]):
            continue
        if "function" in m and not re.search(m["function"], sl.get("function", "")):
            continue
        if "shape" in m and not re.search(m["shape"], job.shape()):
            continue
        return f
    return None


# -------------------------------------------------------------------- running a property
def run_property(prop, tier, jobs, assumptions, level_text, keep=False, only=None):
    seed = int(os.environ.get("VERIF_SEED", "0") or 0)
    ctx = Ctx(prop, tier, keep=keep)
    findings = load_findings()
    if tier == "quick":
        jobs = [j for j in jobs if j.tier == "quick"]
    if only:
        jobs = [j for j in jobs if re.search(only, j.name())]
    # VERIF_SEED only permutes the scheduling order; nothing that is claimed is random
    import random
    rnd = random.Random(seed)
    order = list(range(len(jobs)))
    if seed:
        rnd.shuffle(order)
    # queries with an explicit (longer) time limit start first, so that the check's wall time is max(longest query, total / cores)
    order.sort(key=lambda i: -(jobs[i].timeout or 0))
    entries_by_unit = {}
    for j in jobs:
        entries_by_unit.setdefault(j.unit_key(), set()).add(j.entry)

    records = [None] * len(jobs)
    violations, inconclusive, known_hits, unreplayed = [], [], [], []

    def work(i):
        job = jobs[i]
        rec = {"job": job.name(), "harness": job.harness, "entry": job.entry, "shape": dict(job.defs, **job.cdefs), "unwind": job.unwind,
               "symbolic": job.sym, "outside": job.outside, "variant": job.variant,
               "backend": "z3 via cbmc --z3 (SMT2, QF_AUFBV)" if "--z3" in job.extra else "minisat (cbmc default)"}
        records[i] = rec
        try:
            u = ctx.unit(job, sorted(entries_by_unit[job.unit_key()]))
        except Exception as e:
            rec["status"] = "build-error"
            rec["error"] = str(e)[-3000:]
            inconclusive.append((job, "build error: " + str(e)[-1500:]))
            ctx.log("BUILD-ERROR", job.name(), str(e)[-1500:])
            return
        r = run_cbmc(ctx, job, u)
        rec["wall_s"] = round(r["wall"], 2)
        if r["status"] == "timeout":
            rec["status"] = "timeout"
            inconclusive.append((job, "timeout after %.0fs" % r["wall"]))
            ctx.log("TIMEOUT", job.name())
            return
        results, stats, errors = parse_json_ui(r["out"])
        rec.update(stats)
        rec["unwindset"] = ctx.resolve_unwindset(job, u)
        if results is None or (not results and stats.get("status") != "success") or r["rc"] not in (0, 10):
            rec["status"] = "solver-error"
            rec["error"] = ("; ".join(errors) + " rc=%s " % r["rc"] + r["err"][-500:])[-1500:]
            inconclusive.append((job, "cbmc error/out of memory: " + rec["error"]))
            ctx.log("CBMC-ERROR", job.name(), rec["error"])
            return
        n_ok = n_fail = n_reach = n_foreign = 0
        fails = []
        reached, not_reached = [], []
        unknown = []
        for res in results:
            desc = res.get("description", "")
            st = res.get("status")
            mm = re.match(r"(C\d\d):", desc)
            if mm and mm.group(1) != prop:
                n_foreign += 1   # assertion that belongs to another property's check of the same harness
                continue
            if desc.startswith("REACH:"):
                if st == "FAILURE":
                    n_reach += 1
                    reached.append(desc[6:])
                elif desc.startswith("REACH:OPT:"):
                    not_reached.append(desc[6:])   # optional witness: legitimately unreachable at some shapes
                else:
                    inconclusive.append((job, "vacuous: point not reachable: " + desc))
                    ctx.log("VACUOUS", job.name(), desc)
                continue
            if st == "SUCCESS":
                n_ok += 1
            elif st == "FAILURE":
                n_fail += 1
                fails.append(res)
            else:
                unknown.append((st, desc))   # CBMC 6: not decided because reachable only past a failed (fatal) check
        if unknown and not fails:
            inconclusive.append((job, "%d properties with status %s and no failure, e.g. %s" % (len(unknown), unknown[0][0], unknown[0][1])))
        rec["properties_unknown_after_failure"] = len(unknown)
        rec["properties_proved"] = n_ok
        rec["properties_failed"] = n_fail
        rec["reach_witnesses"] = n_reach
        rec["reached"] = sorted(set(reached))
        rec["not_reached_optional"] = sorted(set(not_reached))
        rec["assertions_of_other_properties_skipped"] = n_foreign
        rec["status"] = "ok" if not fails else "failed"
        rec["functions"] = len(u["funcs"]["functions"])
        if n_reach == 0:
            inconclusive.append((job, "no reachability witness in harness"))
        # classify failures
        seen_keys = set()
        for res in fails:
            desc = res.get("description", "")
            sl = res.get("sourceLocation", {}) or {}
            auto = bool(re.match(r"(dereference failure|memcpy|memmove|memset|free |double free|division by zero|array |unwinding assertion|max allocation|pointer )", desc))
            key = ("auto", sl.get("file"), sl.get("function"), sl.get("line")) if auto else (desc, sl.get("file"), sl.get("function"))
            kf = match_finding(findings, prop, job, res)
            if kf:
                known_hits.append((kf, job, res))
                continue
            if key in seen_keys:
                continue
            seen_keys.add(key)
            with ctx.lock:
                ctx.replays_started = getattr(ctx, "replays_started", 0) + 1
                over = len(seen_keys) > 3 or ctx.replays_started > 10
            if over:
                rec.setdefault("unreplayed_failures", []).append({"description": desc, "location": "%s:%s" % (sl.get("file"), sl.get("line"))})
                unreplayed.append((job, desc))
                continue
            handle_failure(ctx, prop, job, u, res, violations, inconclusive, rec)
        # translator / model validation on this run: replay the solver's witness for "end of harness" natively; the native
        # run must reach the end without failing any assertion (at most two harness files per run)
        if not fails and n_reach and WITNESS_REPLAYS:
            with ctx.lock:
                done = getattr(ctx, "witness_done", set())
                ctx.witness_done = done
                todo = job.harness not in done and len(done) < WITNESS_REPLAYS
                if todo:
                    done.add(job.harness)
            if todo:
                wname = next((x.get("property") for x in results if x.get("description") == "REACH:end of harness"), None)
                if wname:
                    tr = run_cbmc(ctx, job, u, trace_property=wname)
                    if tr["status"] == "done":
                        inp = extract_input(tr["out"], job.in_max, wname)
                        rep = native_replay(ctx, job, inp, "witness")
                        out = rep.get("out") or ""
                        # assertions that belong to another property's check of the same harness are not this query's business
                        own_failed = [l for l in re.findall(r"VP_ASSERT_FAILED: (.*)", out) if not (re.match(r"(C\d\d):", l) and re.match(r"(C\d\d):", l).group(1) != prop)]
                        agrees = rep.get("built") and "VP_REACHED: end of harness" in out and not own_failed and "VP_ASSUME_VIOLATED" not in out and not re.search(r"ERROR: AddressSanitizer|runtime error:", out)
                        rec["witness_replayed_natively"] = bool(agrees)
                        if not agrees:
                            inconclusive.append((job, "native replay of the solver's witness disagrees with the encoding: " + (out or rep.get("log", ""))[-300:]))
        ctx.log("%-7s %s%s  %.1fs vars=%s proved=%d failed=%d reach=%d" % (rec["status"].upper(), job.name(), "" if job.variant == "real" else " {" + job.variant + "}", r["wall"], stats.get("variables"), n_ok, n_fail, n_reach))

    with cf.ThreadPoolExecutor(NCPU) as ex:
        futs = [ex.submit(work, i) for i in order]
        for f in futs:
            f.result()

    # C19: writable static-storage objects of the library that no query showed to be written. Either the writing code is
    # unreachable, or it sits in functions the encoding replaces by models (the stringstream formatters of the TECMP status
    # conversion) or behind bodyless external calls (snprintf into a static buffer). The solver cannot decide reachability
    # there, so the object's mere existence sends the run to the multi-threaded native confirmation; only a reported race /
    # digest difference / crash is a violation. On the pinned tree the set is empty (libstdc++'s __ioinit aside).
    if prop == "C19" and not only:
        writable = set()
        for variant, (lib, _) in ctx.lib.items():
            sp = ctx.statics_file(variant)
            writable |= {l.split()[2] for l in open(sp) if l.startswith("G 1 ")}
        writable -= {"_ZStL8__ioinit"}
        flagged = any(r and r.get("counterexamples") for r in records)
        if writable and not flagged:
            nat = c19_native(ctx)
            race = "ThreadSanitizer: data race" in nat["out"] or "digests differ" in nat["out"] or (nat.get("built") and nat["rc"] not in (0, -1, -2))
            rdir = os.path.join(os.environ.get("VP_REPLAYS", os.path.join(VERIF, "replays")), prop)
            os.makedirs(rdir, exist_ok=True)
            where = "writable static object(s) not reached by any query: " + ", ".join(sorted(writable))[:600]
            rpath = os.path.join(rdir, "c19-%s.json" % hashlib.sha1(where.encode()).hexdigest()[:10])
            json.dump({"property": prop, "kind": "c19-tsan", "description": "C19: library defines writable static storage outside the encoded code", "location": where,
                       "native_confirmed": bool(race), "native_output": nat["out"][-4000:]}, open(rpath, "w"), indent=1)
            if race:
                violations.append({"replay": rpath, "summary": where + "; ThreadSanitizer / digest comparison of 4 concurrent instances confirms interference"})
            else:
                ctx.log("C19-NOTE", where, "- no race / digest difference natively: not a violation")

    # ------------------------------------------------------------ report
    wall = time.time() - ctx.t0
    printed = set()
    for kf, job, res in known_hits:
        if kf["id"] not in printed:
            printed.add(kf["id"])
            print("KNOWN-FINDING: property=%s %s [%s]" % (prop, kf["what"], kf["id"]))
    for v in violations:
        print("VIOLATION property=%s replay=%s" % (prop, v["replay"]))
        print("  " + v["summary"])
    if unreplayed:
        print("NOTE: %d further failing assertion(s) were not replayed (cap): %s" % (len(unreplayed), "; ".join(sorted({d for _, d in unreplayed}))[:800]))
        if not violations:
            inconclusive.append((unreplayed[0][0], "failing assertions beyond the replay cap"))
    for job, why in inconclusive:
        print("INCONCLUSIVE property=%s job=%s: %s" % (prop, job.name(), why[:600]))

    write_evidence(ctx, prop, tier, seed, jobs, records, violations, inconclusive, known_hits, assumptions, level_text, wall)
    ctx.cleanup()
    if violations:
        return 1
    if inconclusive:
        return 2
    return 0


def c19_native(ctx):
    """n threads on separate instances under ThreadSanitizer, result digests against the single-threaded ones"""
    with ctx.lock:
        lk = ctx.unit_locks.setdefault("c19native", threading.Lock())
    with lk:
        if getattr(ctx, "c19_result", None) is not None:
            return ctx.c19_result
        d = os.path.join(ctx.build, "c19native")
        os.makedirs(d, exist_ok=True)
        exe = os.path.join(d, "c19n")
        srcs = [os.path.join(REPO, "src", f) for f in sorted(os.listdir(os.path.join(REPO, "src"))) if f.endswith(".cpp")]
        r = sh(["g++", "-std=c++17", "-O1", "-g", "-fsanitize=thread", "-pthread", "-w", "-I" + os.path.join(REPO, "include"), os.path.join(RT, "c19_native.cpp")] + srcs + ["-o", exe])
        if r.returncode != 0:
            ctx.c19_result = {"built": False, "out": r.stderr[-2000:], "rc": -1}
            return ctx.c19_result
        try:
            p = subprocess.run([exe], stdout=subprocess.PIPE, stderr=subprocess.STDOUT, text=True, timeout=300, env=dict(os.environ, TSAN_OPTIONS="halt_on_error=0 report_signal_unsafe=0"), errors="replace")
            ctx.c19_result = {"built": True, "out": p.stdout[-6000:], "rc": p.returncode}
        except subprocess.TimeoutExpired:
            ctx.c19_result = {"built": True, "out": "timeout", "rc": -2}
        return ctx.c19_result


def handle_failure(ctx, prop, job, u, res, violations, inconclusive, rec):
    desc = res.get("description", "")
    sl = res.get("sourceLocation", {}) or {}
    pname = res.get("property")
    if prop == "C19" and desc.startswith("C19:"):
        # a reachable write into a static-storage object: confirmed by a multi-threaded run under ThreadSanitizer
        nat = c19_native(ctx)
        # a crash of the multi-threaded run (corrupted shared structure) counts like a reported race; build failures and timeouts do not
        race = "ThreadSanitizer: data race" in nat["out"] or "digests differ" in nat["out"] or (nat.get("built") and nat["rc"] not in (0, -1, -2))
        rdir = os.path.join(os.environ.get("VP_REPLAYS", os.path.join(VERIF, "replays")), prop)
        os.makedirs(rdir, exist_ok=True)
        where = "%s:%s %s" % (sl.get("file", "?"), sl.get("line", "?"), sl.get("function", "?"))
        rpath = os.path.join(rdir, "c19-%s.json" % hashlib.sha1(where.encode()).hexdigest()[:10])
        json.dump({"property": prop, "kind": "c19-tsan", "harness": job.harness, "entry": job.entry, "defs": job.defs, "description": desc, "location": where,
                   "native_confirmed": race, "native_output": nat["out"][-4000:]}, open(rpath, "w"), indent=1)
        rec.setdefault("counterexamples", []).append({"description": desc, "location": where, "confirmed": race, "replay": rpath})
        if race:
            violations.append({"replay": rpath, "summary": "%s: write to a static-storage object at %s; ThreadSanitizer / digest comparison of 4 concurrent instances confirms interference" % (job.name(), where)})
        else:
            rec.setdefault("shared_but_not_racing", []).append(where)
            ctx.log("C19-NOTE", job.name(), "write to static storage at", where, "- no race / digest difference natively (synchronised or once-initialised): not a violation")
        return
    tr = run_cbmc(ctx, job, u, trace_property=pname)
    if tr["status"] == "timeout":
        inconclusive.append((job, "trace run timed out for " + desc))
        return
    inp = extract_input(tr["out"], job.in_max, pname)
    rep = native_replay(ctx, job, inp, pname or desc)
    ok, why = confirms(rep, desc)
    if not ok and desc.startswith("C20:") and rep.get("built"):
        # the solver says an output byte depends on uninitialised memory; in one native process an uninitialised stack slot
        # usually holds the same stale value in both runs, so definedness is confirmed with valgrind memcheck instead
        rep2 = native_replay(ctx, job, inp, pname or desc, mode="plain")
        if rep2.get("built") and re.search(r"uninitialised (value|byte)", rep2.get("out", "")):
            ok, why = True, "valgrind memcheck: " + re.search(r"[^\n]*uninitialised (?:value|byte)[^\n]*", rep2["out"]).group(0).strip()[:160]
            rep = rep2
    rdir = os.path.join(os.environ.get("VP_REPLAYS", os.path.join(VERIF, "replays")), prop)
    os.makedirs(rdir, exist_ok=True)
    tag = hashlib.sha1((job.name() + (pname or "") + desc).encode()).hexdigest()[:10]
    rpath = os.path.join(rdir, "%s-%s.json" % (job.entry, tag))
    where = "%s:%s %s" % (sl.get("file", "?"), sl.get("line", "?"), sl.get("function", "?"))
    json.dump({"property": prop, "harness": job.harness, "entry": job.entry, "defs": job.defs, "cdefs": job.cdefs, "variant": job.variant,
               "in_max": job.in_max, "input_hex": inp.hex(), "cbmc_property": pname, "description": desc, "location": where,
               "native_confirmed": ok, "native_verdict": why, "native_output": (rep.get("out") or rep.get("log") or "")[-4000:]},
              open(rpath, "w"), indent=1)
    rec.setdefault("counterexamples", []).append({"description": desc, "location": where, "confirmed": ok, "verdict": why, "replay": rpath})
    if ok:
        violations.append({"replay": rpath, "summary": "%s: \"%s\" at %s -- %s" % (job.name(), desc, where, why)})
    else:
        inconclusive.append((job, "counterexample for \"%s\" at %s did not reproduce natively (%s); replay=%s" % (desc, where, why, rpath)))


def replay_file(path):
    r = json.load(open(path))
    ctx = Ctx("replay", "quick")
    if r.get("kind") == "c19-tsan":
        nat = c19_native(ctx)
        print(nat["out"])
        ok = "ThreadSanitizer: data race" in nat["out"] or "digests differ" in nat["out"]
        print("REPRODUCED" if ok else "NOT REPRODUCED")
        ctx.cleanup()
        return 1 if ok else 0
    job = Job(r["harness"], r["entry"], defs=r["defs"], cdefs=r.get("cdefs"), variant=r.get("variant", "real"), in_max=r.get("in_max", 256))
    rep = native_replay(ctx, job, bytes.fromhex(r["input_hex"]), "replay")
    ok, why = confirms(rep, r["description"])
    if not ok and r["description"].startswith("C20:") and rep.get("built"):
        rep2 = native_replay(ctx, job, bytes.fromhex(r["input_hex"]), "replay", mode="plain")
        if rep2.get("built") and re.search(r"uninitialised (value|byte)", rep2.get("out", "")):
            ok, why, rep = True, "valgrind memcheck reports a use of uninitialised memory", rep2
    print(rep.get("out") or rep.get("log"))
    print("REPRODUCED" if ok else "NOT REPRODUCED", "-", why)
    ctx.cleanup()
    return 1 if ok else 0


def write_evidence(ctx, prop, tier, seed, jobs, records, violations, inconclusive, known_hits, assumptions, level_text, wall):
    recs = [r for r in records if r]
    ok = [r for r in recs if r.get("status") in ("ok", "failed")]
    nontrivial = [r for r in ok if r.get("variables", 0) > 0 or r.get("vccs", 0) > 0]
    # /repo functions encoded (union over units)
    names, per_file = set(), {}
    for u in ctx.units.values():
        for f in u["funcs"]["functions"]:
            if f["file"].startswith(REPO + "/"):
                names.add(f["name"])
    dm = demangle(sorted(names))
    repo_funcs = sorted(set(dm.values()))
    static_objects = sorted({s for u in ctx.units.values() for s in u["funcs"].get("static_objects", [])})
    lib_statics = {}
    for variant, (lib, _) in ctx.lib.items():
        sp = os.path.join(os.path.dirname(lib), "statics.txt")
        if os.path.exists(sp):
            gl = [l.split() for l in open(sp) if l.startswith("G ")]
            lib_statics[variant] = {"objects_with_static_storage": len(gl), "writable": [g[2] for g in gl if g[1] == "1"],
                                    "functions_instrumented": sum(1 for l in open(sp) if l.startswith("F "))}
    static_write_checks = sum(u["funcs"].get("static_write_checks", 0) for u in ctx.units.values())
    samples = []
    for r in recs[:6]:
        samples.append({k: r.get(k) for k in ("job", "shape", "symbolic", "status", "variables", "clauses", "properties_proved", "properties_failed", "reach_witnesses", "wall_s", "unwind", "unwindset", "outside") if r.get(k) is not None})
    cov = {
        "evaluations": len(recs),
        "distinct_nontrivial": len({r["job"] for r in nontrivial}),
        "rule": "one evaluation = one CBMC query (one harness entry at one concrete shape) deciding all values of its symbolic inputs; "
                "non-trivial = the query produced a non-empty formula (SAT variables > 0 or VCCs > 0) and its reachability witnesses were found",
        "samples": samples,
        "exhaustive": False,
        "obligations": sum(r.get("properties_proved", 0) + r.get("properties_failed", 0) for r in ok),
        "discharged": sum(r.get("properties_proved", 0) for r in ok),
        "reach_witnesses": sum(r.get("reach_witnesses", 0) for r in ok),
        "sat_variables_total": sum(r.get("variables", 0) for r in ok),
        "sat_clauses_total": sum(r.get("clauses", 0) for r in ok),
        "solver_s_total": round(sum(r.get("solver_s", 0.0) for r in ok), 2),
        "cbmc_wall_s_total": round(sum(r.get("wall_s", 0.0) for r in recs), 2),
        "traces_validated_against_impl": sum(len(r.get("counterexamples", [])) for r in recs) + sum(1 for r in recs if r.get("witness_replayed_natively")),
        "witness_traces_replayed_natively_and_agreeing": sum(1 for r in recs if r.get("witness_replayed_natively")),
        "repo_functions_encoded": repo_funcs,
        "writable_static_objects_in_module": static_objects,
        "library_static_storage": lib_statics,
        "static_write_assertions_instrumented": static_write_checks,
        "queries": [{k: r.get(k) for k in ("job", "variant", "backend", "status", "wall_s", "variables", "clauses", "steps", "properties_proved", "properties_failed", "reach_witnesses",
                                            "reached", "not_reached_optional", "properties_unknown_after_failure", "counterexamples", "unreplayed_failures", "error") if r.get(k) not in (None, [], "")} for r in recs],
        "bounds": sorted({"unwind=%s" % r.get("unwind") for r in recs}),
        "symbolic_inputs": sorted({r.get("symbolic") for r in recs if r.get("symbolic")}),
        "outside_the_claim": sorted({r.get("outside") for r in recs if r.get("outside")}),
        "inconclusive": [{"job": j.name(), "why": w[:400]} for j, w in inconclusive],
        "known_findings_hit": sorted({kf["id"] for kf, _, _ in known_hits}),
        "pipeline": "clang++-14 -O1 IR of /repo working tree -> ll2c -> C -> goto-cc -> cbmc 6.11 (MiniSat; Z3 4.8.12 through --z3 where a query says so), --unwinding-assertions",
        "explanation": level_text,
    }
    ev = {
        "property_id": prop, "tier": tier, "seed": seed, "level": "model_checking", "coverage": cov,
        "assumptions": assumptions, "wall_s": round(wall, 2), "violations": len(violations),
    }
    evdir = os.environ.get("VP_EVIDENCE_DIR", os.path.join(VERIF, "evidence"))
    os.makedirs(evdir, exist_ok=True)
    json.dump(ev, open(os.path.join(evdir, prop + ".json"), "w"), indent=1)
