"""Which solver queries decide which property (DESIGN.md section 3)."""
from .core import Job

COMMON_ASSUME = [
    "clang-14 -O1 lowering of /repo's C++ to LLVM IR is faithful; ll2c (our IR->C translator) is faithful (guarded by native replay of every counterexample)",
    "CBMC 6.11 + MiniSat are sound for the generated C; --unwinding-assertions makes every loop bound a checked obligation",
    "operator new never fails (--no-malloc-may-fail); std::__throw_* reaching is reported as a failure",
    "x86-64 little-endian host, libstdc++ 12 headers as installed",
]


def fields_jobs(harness, prefixes, which, tier="quick"):
    jobs = []
    for p in prefixes:
        if which == 11:
            jobs.append(Job(harness, p + "_c11", unwind=34, tier=tier, sym="all object bytes (any prior state), which setter, written value (full in-range)"))
        else:
            jobs.append(Job(harness, p + "_c12", unwind=34, tier=tier, sym="all object bytes, which setter, written value"))
            jobs.append(Job(harness, p + "_c12_default", unwind=34, tier=tier, sym="none (default-constructed object)"))
    return jobs


def c11_jobs():
    j = fields_jobs("c11_can.cpp", ["h_canhdr", "h_canpay", "h_canfdpay"], 11)
    return j


def c12_jobs():
    j = fields_jobs("c11_can.cpp", ["h_canhdr", "h_canpay", "h_canfdpay"], 12)
    j.append(Job("c11_can.cpp", "h_can_sizes", sym="none"))
    return j


PROPS = {
    "C11": {"jobs": c11_jobs, "assumptions": COMMON_ASSUME + ["field independence is judged per protocol field: two getters that are views of overlapping bits (CAN crc vs CAN-FD crc/sbc) are not 'other fields' of each other"],
            "level": "bounded symbolic model checking of the compiled setters/getters: loop-free code, every prior object state and every in-range value decided by the solver; no bound is exceeded within the object size"},
    "C12": {"jobs": c12_jobs, "assumptions": COMMON_ASSUME + ["the layout table /verif/spec/layout.h is a faithful transcription of the ASAM CMP / TECMP documents"],
            "level": "bounded symbolic model checking against an independent layout table"},
}
NOT_APPLICABLE = {}
