"""Which solver queries decide which property (DESIGN.md section 3)."""
import os
from .core import Job

COMMON_ASSUME = [
    "clang-14 -O1 lowering of /repo's C++ to LLVM IR is faithful; ll2c (our IR->C translator) is faithful (guarded by native replay of every counterexample)",
    "CBMC 6.11 + MiniSat are sound for the generated C; --unwinding-assertions makes every loop bound a checked obligation",
    "operator new never fails (--no-malloc-may-fail); std::__throw_* reaching is reported as a failure",
    "x86-64 little-endian host, libstdc++ 12 headers as installed",
]


def fields_jobs(harness, prefixes, which, tier="quick"):
    jobs = []
    for p in prefixes:
        if which == 11:
            jobs.append(Job(harness, p + "_c11", unwind=34, tier=tier, sym="all object bytes (any prior state), which setter, written value (full in-range)"))
        else:
            jobs.append(Job(harness, p + "_c12", unwind=34, tier=tier, sym="all object bytes, which setter, written value"))
            jobs.append(Job(harness, p + "_c12_default", unwind=34, tier=tier, sym="none (default-constructed object)"))
    return jobs


C11_GROUPS = {
    1: ["h_cmphdr", "h_msghdr", "h_tecmphdr"],
    2: ["h_linhdr", "h_linpay", "h_ethhdr", "h_ethpay"],
    3: ["h_anahdr", "h_anapay", "h_cmhdr", "h_cmpay"],
    4: ["h_ifhdr", "h_ifpay", "h_tcan", "h_tlin"],
    5: ["h_tif", "h_tcm"],
}
C11_FLAGOPS = {1: ["h_msghdr_flag"], 2: ["h_linhdr_flag", "h_linpay_flag", "h_ethpay_flag", "h_canpay_flag"]}


def c11_more(which):
    jobs = []
    for g, prefixes in C11_GROUPS.items():
        for p in prefixes:
            suffixes = ["_c11"] if which == 11 else ["_c12", "_c12_default"]
            for sfx in suffixes:
                jobs.append(Job("c11_more.cpp", p + sfx, defs={"GROUP": g}, unwind=60, in_max=96, mem_gb=3,
                                sym="all object bytes (any prior state), which setter, written value (full in-range)" if sfx != "_c12_default" else "none (default-constructed object)"))
    for g, prefixes in C11_FLAGOPS.items():
        for p in prefixes:
            if which == 12 and p == "h_linhdr_flag":
                continue
            jobs.append(Job("c11_more.cpp", p + ("_c11" if which == 11 else "_c12"), defs={"GROUP": g}, unwind=60, in_max=96, mem_gb=3,
                            sym="all object bytes (any prior state), which flag enumerator, set or clear"))
    if which == 11:
        jobs.append(Job("c11_more.cpp", "h_packet_c11", defs={"GROUP": 6}, unwind=20, in_max=64, mem_gb=2, sym="all member values, which setter, written value"))
        jobs.append(Job("c11_more.cpp", "h_payloadtype_c11", defs={"GROUP": 6}, unwind=20, in_max=32, mem_gb=2, sym="packed type value, written value"))
    else:
        for pmt in (1, 2, 3, 0xFF):
            jobs.append(Job("c11_more.cpp", "h_packet_raw_c12", defs={"GROUP": 6, "PMT": pmt}, unwind=40, in_max=64, mem_gb=3,
                            sym="all Packet member values (ids in both write orders), payload type byte, payload bytes", outside="payload lengths other than 4"))
        jobs.append(Job("c11_more.cpp", "h_sizes1", defs={"GROUP": 1}, sym="none"))
        jobs.append(Job("c11_more.cpp", "h_sizes2", defs={"GROUP": 2}, sym="none"))
    return jobs


def c11_jobs():
    j = fields_jobs("c11_can.cpp", ["h_canhdr", "h_canpay", "h_canfdpay"], 11)
    return j + c11_more(11)


def c11_jobs_all():
    # writing the data block (grow, shrink, empty, after raw construction) must leave every header field alone: builder queries shared with C13
    return c11_jobs() + [x for x in c13_jobs() if x.entry == "h_build" and x.defs.get("CLS") in (1, 2, 3, 4, 5, 7) and x.tier == "quick" and x.defs.get("PN", -1) >= 0]


def c12_jobs():
    j = fields_jobs("c11_can.cpp", ["h_canhdr", "h_canpay", "h_canfdpay"], 12)
    j.append(Job("c11_can.cpp", "h_can_sizes", sym="none"))
    # reserved pad bytes written by the variable-length builders (status payloads), incl. re-set objects
    j += [x for x in c13_jobs() if x.entry == "h_build" and x.defs.get("CLS") in (6, 7) and x.tier == "quick"]
    # what reaches the wire through the encoder (frame header bytes against the frame model; C12-labelled assertions in enc.cpp)
    j += [x for x in enc_jobs(["h_enc_model"], quick_shapes=[enc_shape([8]), enc_shape([8, 8], [1, 3]), enc_shape([33], maxb=40)], thorough_shapes=[])]
    return j + c11_more(12)


PROPS = {
    "C11": {"jobs": c11_jobs_all, "assumptions": COMMON_ASSUME + ["field independence is judged per protocol field: two getters that are views of overlapping bits (CAN crc vs CAN-FD crc/sbc) are not 'other fields' of each other"],
            "level": "bounded symbolic model checking of the compiled setters/getters: loop-free code, every prior object state and every in-range value decided by the solver; no bound is exceeded within the object size"},
    "C12": {"jobs": c12_jobs, "assumptions": COMMON_ASSUME + ["the layout table /verif/spec/layout.h is a faithful transcription of the ASAM CMP / TECMP documents"],
            "level": "bounded symbolic model checking against an independent layout table"},
}
NOT_APPLICABLE = {}


# ------------------------------------------------------------------ encoder (C07-C10, encoder half of C01)
def enc_shape(lens, types=None, maxb=64, minb=0, api=None):
    k = len(lens)
    types = types or [1] * k
    d = {"K": k, "MAXB": maxb, "MINB": minb, "API": api if api is not None else (0 if k == 1 else 1)}
    for i, (l, t) in enumerate(zip(lens, types)):
        d["L%d" % i] = l
        d["T%d" % i] = t
    return d


def enc_in_max(d):
    return sum(d.get("L%d" % i, 0) + 20 for i in range(d["K"])) + 16


ENC_SYM = ("all payload bytes, timestamps, interface/vendor ids, common flags, protocol version, "
           "device id, stream id, sequence-counter start value (all 65536, so the wrap is inside every query)")
ENC_OUT = "payload-type byte other than 0xFE (it shares a word with the message type; concrete shape parameter), payloads > 136 bytes, more than 3 packets per batch, max frame size > 64 in quick / > 100 in thorough"

ENC_QUICK = [
    enc_shape([1], maxb=40), enc_shape([16], maxb=40), enc_shape([17], maxb=40), enc_shape([33], maxb=40),
    enc_shape([32], maxb=40), enc_shape([48], maxb=40), enc_shape([31], maxb=40),   # exact multiples of the 16-byte segment capacity and one below
    enc_shape([16], maxb=40, minb=40), enc_shape([20], maxb=40, minb=30), enc_shape([8], [3], maxb=25 + 8), enc_shape([1], maxb=25),
    enc_shape([2], maxb=25), enc_shape([8], [0xFF]), enc_shape([8], [2]),
    enc_shape([8, 8]), enc_shape([8, 16]), enc_shape([8, 15]), enc_shape([8, 17]), enc_shape([4, 4, 16], maxb=80), enc_shape([8, 8], [1, 3]), enc_shape([8, 41]), enc_shape([41, 8]), enc_shape([8, 33]),
    enc_shape([8, 8], minb=64), enc_shape([8, 8], api=2),
    enc_shape([41, 8], minb=64), enc_shape([41, 8], minb=50), enc_shape([41, 8, 8], minb=64),
    enc_shape([8, 41], minb=64), enc_shape([8, 8], [1, 3], minb=64), enc_shape([8, 40]),   # a frame closed early (next packet needs its own frame / other type) is padded too   # the padded frame of a last segment must not take the next packet

    enc_shape([8, 8, 8]), enc_shape([8, 41, 8]), enc_shape([8, 8, 8], [1, 3, 1]), enc_shape([4, 4, 4], [3, 3, 1], maxb=64, minb=20),
    enc_shape([], api=1), enc_shape([], api=2),

]
ENC_THOROUGH = [
    enc_shape([l], maxb=mb, minb=mn) for mb in (25, 40, 64) for mn in (0, mb) for l in sorted({1, mb - 25, mb - 24, mb - 23, 2 * (mb - 24), 2 * (mb - 24) + 1}) if l >= 1
] + [
    enc_shape([a, b], [ta, tb], maxb=64, minb=mn) for mn in (0, 30, 64) for (a, b) in ((8, 8), (8, 40), (8, 41), (40, 8), (41, 8), (41, 41), (8, 9), (33, 8))
    for (ta, tb) in ((1, 1), (1, 3), (3, 0xFF), (2, 2))
] + [
    enc_shape([a, b, c], [ta, tb, tc], maxb=64, api=ap) for ap in (1, 2) for (a, b, c) in ((8, 8, 8), (8, 41, 8), (41, 8, 8), (8, 8, 41), (8, 8, 9), (81, 8, 8), (1, 1, 1))
    for (ta, tb, tc) in ((1, 1, 1), (1, 3, 1), (3, 3, 1))
] + [enc_shape([100], maxb=100), enc_shape([8, 8, 100], maxb=100, minb=64), enc_shape([60, 8, 8], maxb=100, minb=64)]


def enc_jobs(entries, quick_shapes=None, thorough_shapes=None):
    jobs = []
    seen = set()
    for tier, shapes in (("quick", quick_shapes if quick_shapes is not None else ENC_QUICK), ("thorough", thorough_shapes if thorough_shapes is not None else ENC_THOROUGH)):
        for d in shapes:
            key = tuple(sorted(d.items()))
            if key in seen:
                continue
            seen.add(key)
            for e in entries:
                if e == "h_enc_reset" and d["K"] == 0:
                    continue
                jobs.append(Job("enc.cpp", e, defs=d, unwind=1200, tier=tier, in_max=enc_in_max(d), mem_gb=4,
                                sym=ENC_SYM, outside=ENC_OUT))
    return jobs


def enc_twice_jobs():
    """a real earlier encode call, then the batch (C09/C10 direct history check)"""
    jobs = []
    batches = [enc_shape([8]), enc_shape([41]), enc_shape([8, 8], [1, 3]), enc_shape([17], maxb=40)]
    priors = [{"PL0": 8}, {"PL0": 8, "PT0": 3}, {"PL0": 50}, {"PL0": 8, "PMAX": 100}, {"PL0": 90, "PMAX": 40}]
    for bi, d in enumerate(batches):
        for pi, pr in enumerate(priors):
            dd = dict(d)
            dd.update(pr)
            tier = "quick" if (bi in (0, 1) or pi in (0, 1)) and not (bi == 3 and pi > 1) else "thorough"
            jobs.append(Job("enc.cpp", "h_enc_twice", defs=dd, unwind=1200, tier=tier, in_max=enc_in_max(d) + 160, mem_gb=4,
                            sym=ENC_SYM + "; the earlier call's payload, timestamp and flags; its version is the batch's version xor 0x5A", outside=ENC_OUT))
    for d, tier in ((enc_shape([8]), "quick"), (enc_shape([41]), "quick"), (enc_shape([8, 8], [1, 3]), "thorough")):
        dd = dict(d, PL0=8, PRIOR2=1)
        jobs.append(Job("enc.cpp", "h_enc_twice", defs=dd, unwind=1200, tier=tier, in_max=enc_in_max(d) + 176, mem_gb=4,
                        sym=ENC_SYM + "; the earlier batch's payloads, timestamp and flags", outside=ENC_OUT))
    # a configuration change between the two calls: the second call's frames carry the new ids and restart at counter 1
    for cfg, d, tier in ((1, enc_shape([8]), "quick"), (2, enc_shape([41]), "quick"), (3, enc_shape([8, 8], [1, 3]), "quick"), (4, enc_shape([17], maxb=40), "quick"),
                         (1, enc_shape([41]), "thorough"), (2, enc_shape([8, 8], [1, 3]), "thorough"), (3, enc_shape([41]), "thorough"), (4, enc_shape([8, 8]), "thorough")):
        dd = dict(d, PL0=8, CFG=cfg)
        jobs.append(Job("enc.cpp", "h_enc_twice", defs=dd, unwind=1200, tier=tier, in_max=enc_in_max(d) + 168, mem_gb=4,
                        sym=ENC_SYM + "; the earlier call's payload, timestamp and flags; the new device / stream id", outside=ENC_OUT))
    # differential form (fresh vs used real encoder): any configuration, incl. minimum > maximum
    diffs = [(enc_shape([8], maxb=40, minb=48), {"PL0": 8, "PMIN": 64, "PMAX": 100}, "quick"),
             (enc_shape([8], maxb=64, minb=64), {"PL0": 8, "PMIN": 0, "PMAX": 48}, "quick"),     # the earlier call's maximum is below this call's minimum
             (enc_shape([8], maxb=40), {"PL0": 8, "PMIN": 64, "PMAX": 64}, "quick"),
             (enc_shape([41], maxb=40), {"PL0": 50, "PMIN": 0, "PMAX": 48, "PT0": 3}, "quick"),
             (enc_shape([8, 8], [1, 3], maxb=64, minb=30), {"PL0": 90, "PMIN": 50, "PMAX": 50}, "thorough"),
             (enc_shape([17], maxb=40, minb=44), {"PL0": 8, "PMIN": 41, "PMAX": 30}, "thorough"),
             (enc_shape([], api=1), {"PL0": 8, "PMIN": 64, "PMAX": 100}, "thorough")]
    for d, pr, tier in diffs:
        dd = dict(d)
        dd.update(pr)
        jobs.append(Job("enc.cpp", "h_enc_diff", defs=dd, unwind=1200, tier=tier, in_max=2 * enc_in_max(d) + 200, mem_gb=4,
                        sym=ENC_SYM + "; the earlier call's payload and timestamp", outside=ENC_OUT + "; earlier-call configurations are the listed (PMIN, PMAX) pairs"))
    return jobs


def enc_counter_jobs():
    """C09, model-free, incl. packets with an empty payload (outside C07's domain, inside C09's 'any encode call')"""
    jobs = []
    shapes = [(enc_shape([0, 8], [3, 1]), "quick"), (enc_shape([8, 0, 8], [1, 3, 1]), "quick"), (enc_shape([0, 33], [3, 1], maxb=40), "quick"),   # an empty packet of another type just before a message
              (enc_shape([0]), "quick"), (enc_shape([8, 0]), "quick"), (enc_shape([0, 8]), "quick"), (enc_shape([8, 0], [1, 3]), "quick"), (enc_shape([33, 0], maxb=40), "quick"),
              (enc_shape([16, 0], maxb=40), "quick"), (enc_shape([0, 0], [1, 3], minb=40), "quick"), (enc_shape([8, 41, 8]), "quick"), (enc_shape([0], minb=40), "thorough"), (enc_shape([0, 0, 0], api=2), "thorough"),
              (enc_shape([8, 0, 8], [1, 1, 3]), "thorough"), (enc_shape([0, 33], maxb=40), "thorough"), (enc_shape([8, 8], [1, 3]), "thorough"), (enc_shape([], api=1), "thorough")]
    for d, tier in shapes:
        jobs.append(Job("enc.cpp", "h_enc_counters", defs=d, unwind=1200, tier=tier, in_max=enc_in_max(d) + 16, mem_gb=4,
                        sym=ENC_SYM, outside=ENC_OUT + "; two consecutive calls of the same batch"))
    return jobs


def enc_big_jobs():
    """frames at the top of the size range (sizes/tiling only, contents nondeterministic but not compared byte by byte)"""
    jobs = []
    shapes = [(enc_shape([1400], maxb=1500), "quick"), (enc_shape([3000], maxb=1500), "quick"), (enc_shape([700, 700, 700], maxb=1500), "quick"),
              (enc_shape([1476], maxb=1500), "thorough"), (enc_shape([1477], maxb=1500), "thorough"), (enc_shape([2952], maxb=1500), "thorough"), (enc_shape([2953], maxb=1500), "thorough"),
              (enc_shape([100, 1400], maxb=1500, minb=64), "thorough"), (enc_shape([4000], maxb=1000), "thorough"), (enc_shape([8000], maxb=9000), "thorough")]
    for d, tier in shapes:
        jobs.append(Job("enc.cpp", "h_enc_big", defs=d, unwind=12, tier=tier, in_max=64, mem_gb=6,
                        sym="payload bytes (nondeterministic heap contents; one symbolic index compared), timestamps, version, device/stream id, counter start",
                        outside="frames beyond 9000 bytes (array copies of n bytes cost CBMC O(n) recursion depth and superlinear memory: 8000 bytes take 80 s, 20000 exhaust 11 GB; the 16-bit boundary at 65536+ is out of reach); byte-by-byte comparison of whole payloads (one symbolic sampled index of the first packet instead); message header fields other than the declared length"))
    # 64 KiB frames: the 16-bit boundaries of payload length (65535) and frame size (65535 + 24). Copies transfer a 48-byte
    # prefix only (rt/vp_rt.h VP_MEM_PREFIX; whole regions are still checked for accessibility), wire-header accesses are
    # emitted bytewise (ll2c --bytewise-wire) and the query goes to Z3 through CBMC's SMT2 back end (native array theory):
    # with the SAT back end the Ackermann expansion over 64 KiB arrays exhausts 18 GB. Sizes, tiling, headers, counters and
    # the first 24 payload bytes are decided, not the remaining contents.
    huge = [(enc_shape([65535], maxb=65559), "quick"), (enc_shape([65535], maxb=65558), "quick"), (enc_shape([65535], maxb=65536), "thorough"), (enc_shape([65535], maxb=65537), "thorough"),
            (enc_shape([65535], maxb=65535), "thorough"), (enc_shape([65534], maxb=65558), "thorough"), (enc_shape([65512], maxb=65536), "quick"), (enc_shape([65513], maxb=65536), "thorough"),
            (enc_shape([65535], maxb=32768), "thorough"), (enc_shape([65535], maxb=65559, minb=65559), "thorough"), (enc_shape([100], maxb=65559, minb=65540), "quick"), (enc_shape([70], maxb=65559, minb=65536), "thorough")]
    if os.environ.get("VP_HUGE_SHAPE"):
        huge = [(enc_shape([int(x) for x in os.environ["VP_HUGE_SHAPE"].split(":")[0].split(",")], maxb=int(os.environ["VP_HUGE_SHAPE"].split(":")[1])), "quick")]
    for d, tier in huge:
        plain = bool(os.environ.get("VP_HUGE_PLAIN"))
        dd = dict(d) if plain else dict(d, HUGE=24)
        jobs.append(Job("enc.cpp", "h_enc_big", defs=dd, cdefs={} if plain else {"VP_MEM_PREFIX": 48}, ll2c_opts=[] if plain else ["--bytewise-wire"], extra=["--z3"], unwind=50, tier=tier, in_max=64, mem_gb=8,
                        sym="timestamps, version, device/stream id, counter start, the first 24 payload bytes of the first packet (one symbolic index compared)",
                        outside="batches of two or more packets at this size (Z3 did not finish [8, 65500], [8, 65535], [65535, 8], [40000, 40000] within 1800 s); payload and padding contents beyond the first 48 bytes of each copy (copies are cut to a prefix in this mode; region accessibility is still checked); message header fields other than the declared length"))
    return jobs


ENC_ASSUME = COMMON_ASSUME + [
    "batch shape (packet count, payload lengths, message types, min/max frame size, API overload) is enumerated concretely; everything else is symbolic",
    "expected frames come from an independent protocol model written in the harness (harness/enc.cpp buildModel), not from the library",
    "the encoder's counter start value is installed through the ASAM_CMP_VERIF friend hook (any 16-bit value)",
]
PROPS["C07"] = {"jobs": lambda: enc_jobs(["h_enc_model"]) + enc_twice_jobs() + enc_big_jobs(), "assumptions": ENC_ASSUME + [
    "64 KiB shapes (payload 65534/65535, max 32768..65559): copies transfer a 48-byte prefix only (whole regions still checked for accessibility), wire-header accesses are bytewise, and the query is decided by Z3 4.8.12 through cbmc --z3; single-packet batches; contents beyond the first 24 payload bytes and padding contents are outside"],
                "technique": "bounded symbolic execution of the real code (clang IR -> ll2c -> CBMC; SAT back end MiniSat, SMT back end Z3 for the 64 KiB shapes), unwinding assertions on, counterexamples replayed natively",
                "level": "bounded symbolic model checking of Encoder::encode against an independent frame model, all contents symbolic per shape"}
PROPS["C08"] = {"jobs": lambda: enc_jobs(["h_enc_model"]) + enc_twice_jobs(), "assumptions": ENC_ASSUME,
                "level": "bounded symbolic model checking of Encoder::encode against an independent segmentation/aggregation model"}
PROPS["C09"] = {"jobs": lambda: enc_jobs(["h_enc_model", "h_enc_reset"]) + enc_twice_jobs() + enc_counter_jobs(), "assumptions": ENC_ASSUME + [
    "history quantifier: one encode call from an arbitrary counter value and arbitrary ids is an inductive step; the lift to all histories is by induction on the number of calls (DESIGN.md section 2)"],
                "level": "bounded symbolic model checking of one encode/configuration step from an arbitrary counter state (inductive step over histories)"}
PROPS["C10"] = {"jobs": lambda: enc_jobs(["h_enc_used", "h_enc_model"]) + enc_twice_jobs(), "assumptions": ENC_ASSUME + [
    "history quantifier by induction: (post) every encode leaves the scratch state cleared - asserted in h_enc_model; (step) from any such post-state with any remembered message type and counter, encode equals the fresh-encoder model - h_enc_used"],
                "level": "bounded symbolic model checking of the induction step 'encode from any post-state of earlier calls == encode on a fresh encoder'"}


# ------------------------------------------------------------------ C03 validators vs accessors
C03_HDR = {1: 16, 2: 16, 3: 8, 4: 6, 5: 16, 6: 26, 7: 36}
C03_NAME = {1: "CAN", 2: "CAN-FD", 3: "LIN", 4: "Ethernet", 5: "analog", 6: "capture-module status", 7: "interface status"}
C03_PT = {1: (1, 1), 2: (1, 2), 3: (1, 3), 4: (1, 8), 5: (1, 7), 6: (3, 1), 7: (3, 2)}  # (message type, payload type byte)


def c03_jobs():
    jobs = []
    for cls, h in C03_HDR.items():
        extra = 16 if cls in (6, 7) else 8
        sizes = list(range(0, h + extra + 1))
        quick = {0, h - 1, h, h + 1, h + 2, h + 3, h + 4, h + extra, h + extra - 1}
        if cls in (6, 7):
            quick |= {h + 10, h + 11, h + 12}
        for n in sizes + ([h + 40] if cls in (6, 7) else []):
            tier = "quick" if n in quick else "thorough"
            common = dict(unwind=80, tier=tier, in_max=n + 24, sym="every byte of the %d-byte buffer incl. all inner length fields" % n,
                          outside="buffers longer than header+%d bytes" % max(extra, 40 if cls in (6, 7) else extra))
            jobs.append(Job("c03.cpp", "h_valid_class", defs={"CLS": cls, "NB": n}, **common))
            jobs.append(Job("c03.cpp", "h_reject_small", defs={"CLS": cls, "NB": n}, **common))
            mt, pt = C03_PT[cls]
            jobs.append(Job("c03.cpp", "h_valid_packet", defs={"CLS": cls, "NB": n, "MT": mt, "PT": pt, "FULL": 1}, **common))
            # (a FULL=0 variant with the declared message length symbolic exhausts memory at every size; the message gate with
            # a symbolic declared length is decided separately by h_packet_gate)
    for g in (-1, 0, 15, 16, 17, 20, 28, 40, 100):
        jobs.append(Job("c03.cpp", "h_packet_gate", defs={"GSZ": g, "CLS": 1, "NB": 8}, unwind=140, tier="quick" if g in (-1, 15, 16, 20, 28) else "thorough", in_max=max(g, 16) + 16, mem_gb=2,
                        mem=True, sym="all 16 message header bytes (declared length over all 65536 values); GSZ=-1: the size argument over all 64-bit values >= 16",
                        outside="GSZ=-1 relies on the gate reading only the 16 header bytes (pointer checks of the same run)"))
    return jobs


PROPS["C03"] = {"jobs": c03_jobs, "assumptions": COMMON_ASSUME + [
    "buffer size is a concrete shape parameter (0..header+8, status classes ..header+16 and header+40); in the Packet family the declared message length equals the buffer (the gate with a symbolic declared length is h_packet_gate)",
    "the payload's vector is allocated with exactly the buffer size, so CBMC's pointer check on every library dereference decides 'reads only inside'"],
    "level": "bounded symbolic model checking of validator => accessor safety for all buffer contents per size"}


# ------------------------------------------------------------------ decoder, single call (C02 family i)
def dec_unwindset(n, k=None):
    if k is None:
        k = max((n - 8) // 16, 0) + 2
    return {("Decoder6decode", None): k, ("_M_realloc_insert", None): k, ("_Hashtable", None): 4, ("_M_release", None): 3}


def c02_jobs():
    jobs = []
    quick = {0, 7, 8, 23, 24, 25, 32, 40, 48}
    for n in range(0, 57):
        for ver in (1, 2, 0xFF):
            tier = "quick" if (n in quick and ver == 1) or (n in (24, 40) and ver == 0xFF) else "thorough"
            jobs.append(Job("dec.cpp", "h_dec_fresh", defs={"N": n, "VER": ver}, unwind=max(n, 8) * 4 + 20, unwindset=dec_unwindset(n), tier=tier,
                            in_max=2 * n + 8, mem_gb=6, timeout=400 if (tier == "quick" and n >= 40) else None, sym="every frame byte except the CMP version byte (incl. all length/type/flag fields); second fill of the buffer",
                            outside="frames > 56 bytes"))
    for n, pt in ((60, 1), (61, 1), (62, 1), (63, 1), (64, 2), (65, 2), (66, 2)):
        jobs.append(Job("dec.cpp", "h_dec_fresh", defs={"N": n, "VER": 1, "FMT": 3, "FPT": pt}, unwind=max(n, 8) * 4 + 20, unwindset=dec_unwindset(n), tier="quick" if n in (62, 65) else "thorough",
                        in_max=2 * n + 8, mem_gb=6, timeout=400 if n in (62, 65) else None, sym="every frame byte except version, message type (status) and the first payload type byte (capture-module / interface status)", outside="frames > 66 bytes"))
    return jobs


PROPS["C02"] = {"jobs": c02_jobs, "assumptions": COMMON_ASSUME + [
    "frame size and the CMP version byte are concrete shape parameters; the input lives in a heap allocation of exactly that size",
    "termination: the message loop carries an unwinding assertion with bound (N-8)/16+2",
    "history quantifier: besides the fresh-decoder queries, sequences of 2-4 frames (open / continued / completed / aborted reassemblies, two endpoints, foreign and invalid frames) run through one decoder with the same pointer checks; longer histories rest on C17/C18 (the pending table holds at most one bounded entry per endpoint, other entries untouched)"],
    "level": "bounded symbolic model checking with CBMC pointer/bounds checks on every dereference of the real decode path"}



# ------------------------------------------------------------------ C04 wire fidelity
def c04_shape(lens, padz=0, trunc=0, mtype=-1, ptype=-1, ver=1):
    d = {"KM": len(lens), "PADZ": padz, "TRUNC": trunc, "MTYPE": mtype, "PTYPE": ptype, "VER": ver}
    for i, l in enumerate(lens):
        d["ML%d" % i] = l
    return d


def c04_hist_jobs():
    """'on a decoder with any history': the sequence harness (seq.cpp, labels C04) - an open message on one endpoint followed by
    every sequence of two (thorough: three) frames over the 14-frame alphabet, each delivered packet compared field by field with
    the big-endian bytes written into its frame(s); plus the hand-picked interleavings of C05. h_dec_wire (below) decides the
    typed payload kinds, truncation and padding on a fresh decoder."""
    q5, t5 = c05_shapes(4)
    fam2, fam3 = seq_family(4, 2), seq_family(4, 3)
    jobs = [j for j in seq_jobs(q5[::2] + fam2[::6] + seq_agg_family(4, "quick")[::2], t5 + fam2 + fam3[::4] + seq_agg_family(4, "thorough")) if j.entry == "h_seq" and j.variant == SEQ_VARIANT]
    return jobs


def c04_jobs():
    quick = [c04_shape([8]), c04_shape([16]), c04_shape([24], mtype=1), c04_shape([0]), c04_shape([36], mtype=3, ptype=1), c04_shape([40], mtype=3, ptype=2), c04_shape([38], mtype=3, ptype=1),
             c04_shape([8], padz=4), c04_shape([8], padz=16), c04_shape([8], trunc=1), c04_shape([8, 8], mtype=1, ptype=1), c04_shape([8, 8], mtype=1, ptype=1, trunc=1),
             c04_shape([8, 8], mtype=1, ptype=0xFE, padz=16), c04_shape([4, 0, 4], mtype=1, ptype=0xFE), c04_shape([], padz=16), c04_shape([20], ver=0xFF)]
    thorough = [c04_shape([l], mtype=mt) for l in range(0, 49) for mt in (-1,)] + \
               [c04_shape([16], trunc=t) for t in range(1, 33)] + [c04_shape([16], padz=z) for z in range(1, 25)] + \
               [c04_shape([a, b], mtype=mt, ptype=pt, trunc=t) for (a, b) in ((8, 8), (16, 24), (0, 8), (24, 6)) for mt, pt in ((1, 1), (1, 3), (1, 8), (3, 0xFE), (1, -1)) for t in (0, 1, 9)] + \
               [c04_shape([a, b, c], mtype=1, ptype=pt) for (a, b, c) in ((8, 8, 8), (16, 0, 8), (4, 20, 6)) for pt in (1, 2, 3, 8, 7, 0xFE)]
    jobs = []
    seen = set()
    for tier, shapes in (("quick", quick), ("thorough", thorough)):
        for d in shapes:
            key = tuple(sorted(d.items()))
            if key in seen:
                continue
            seen.add(key)
            n = 8 + sum(16 + d.get("ML%d" % i, 0) for i in range(d["KM"])) + d["PADZ"]
            jobs.append(Job("dec.cpp", "h_dec_wire", defs=d, unwind=4 * n + 40, unwindset=dec_unwindset(n, d["KM"] + 2 + (1 if d["PADZ"] >= 16 else 0)), tier=tier, in_max=n + 8, mem_gb=6,
                            sym="every header and payload byte (device, stream, counter, timestamps, ids, flags except seg/error bits, payload type where PTYPE=-1, "
                                "message type where MTYPE=-1, all inner length fields)", outside="more than 3 messages per frame, payloads > 48 bytes"))
    return jobs


PROPS["C04"] = {"jobs": lambda: c04_jobs() + c04_hist_jobs() + _gate_jobs(), "assumptions": COMMON_ASSUME + [
    "declared message lengths, message count, padding/truncation amounts and the version byte are concrete shape parameters",
    "history quantifier: h_dec_wire runs on a fresh decoder (typed payloads, truncation, padding); decoders with a history run through the sequence harness seq.cpp with C04 labels (an open message, then every two-frame continuation incl. frames that carry two messages; generic payload type); longer histories rest on C17/C18's step lemmas",
    "the message gate (a message is decoded iff it lies completely inside the frame) is decided separately with the declared length symbolic (h_packet_gate)",
    "validity oracle is written independently in harness/dec.cpp expectValid; cases the property leaves open (CAN error position without flags, Ethernet tx-port-down/truncated, interface status > 2) are not asserted either way"],
    "level": "bounded symbolic model checking of decode against an independent big-endian reader and structure rules"}


# ------------------------------------------------------------------ frame sequences (C05, C06, C17, C18)
def seq_shape(frames, pfx, samedev=0):
    """frames: list of dicts with keys seg, ep, len, trail, cnt, vx, tx, bad, kind"""
    d = {"F": len(frames), "PFX": pfx, "SAMEDEV": samedev}
    for i, fr in enumerate(frames):
        for k, dflt in (("seg", 0), ("ep", 0), ("len", 8), ("trail", 0), ("cnt", i), ("vx", 0), ("tx", 0), ("bad", 0), ("kind", 0)):
            d["%s_%d" % (k.upper(), i)] = fr.get(k, dflt)
        if fr.get("agg"):
            d["AGG_%d" % i] = fr["agg"]   # a second message in the same frame (seq.cpp AGG)
    return d


def fr(seg, ep=0, ln=8, trail=0, cnt=None, **kw):
    d = dict(seg=seg, ep=ep, len=ln, trail=trail, **kw)
    if cnt is not None:
        d["cnt"] = cnt
    return d


SEQ_SYM = ("device/stream ids of both endpoints (distinct), both start sequence counters (all 65536 values: the wrap is inside every query), "
           "payload and trailing bytes, timestamps, interface ids, non-segmentation flag bits")
SEQ_OUT = "more than 4 frames per sequence, segments > 24 declared bytes, more than 2 endpoints, typed payloads (generic payload type 0xFE is used)"


SEQ_VARIANT = __import__("os").environ.get("VP_SEQ_VARIANT", "mapmodel")


def seq_jobs(shapes_quick, shapes_thorough):
    jobs = []
    seen = set()
    for tier, shapes in (("quick", shapes_quick), ("thorough", shapes_thorough)):
        for d in shapes:
            key = tuple(sorted(d.items()))
            if key in seen:
                continue
            seen.add(key)
            if not jobs:
                jobs.append(Job("seq.cpp", "h_endpoint_key", defs={"PFX": d["PFX"], "F": 1}, unwind=10, in_max=16, mem_gb=2, sym="both device ids and both stream ids (all 2^48 combinations)", variant="real"))
            jobs.append(Job("seq.cpp", "h_seq", defs=d, unwind=400, unwindset={("Decoder6decode", None): 6, ("_M_realloc_insert", None): 4, ("_Hashtable", None): 4, ("_M_release", None): 3},
                            tier=tier, in_max=16 + d["F"] * 64 + 8 * sum(1 for k in d if k.startswith("AGG_")), mem_gb=8, sym=SEQ_SYM, outside=SEQ_OUT, variant=SEQ_VARIANT))
            if d["PFX"] == 5 and d["F"] <= 3 and SEQ_VARIANT == "mapmodel":
                # the same sequence against the real libstdc++ unordered_map (tractable up to 3 frames)
                jobs.append(Job("seq.cpp", "h_seq", defs=d, unwind=400, unwindset={("Decoder6decode", None): 6, ("_M_realloc_insert", None): 4, ("_Hashtable", None): 4, ("_M_release", None): 3},
                                tier=tier if d["F"] == 2 else "thorough", in_max=16 + d["F"] * 64 + 8 * sum(1 for k in d if k.startswith("AGG_")), mem_gb=8, sym=SEQ_SYM, outside=SEQ_OUT, variant="real", timeout=None if d["F"] == 2 else 1200))
    return jobs


def c05_shapes(pfx=5):
    q = [
        seq_shape([fr(1), fr(3)], pfx), seq_shape([fr(1, trail=4), fr(3, trail=3)], pfx), seq_shape([fr(1, ln=16), fr(2, ln=5), fr(3, ln=0)], pfx),
        seq_shape([fr(1, ep=0, cnt=0), fr(1, ep=1, cnt=0), fr(3, ep=0, cnt=1), fr(3, ep=1, cnt=1)], pfx),
        seq_shape([fr(1, ep=0, cnt=0), fr(0, ep=1, cnt=0), fr(3, ep=0, cnt=1)], pfx), seq_shape([fr(1, ep=0, cnt=0), fr(1, ep=1, cnt=0), fr(3, ep=0, cnt=1), fr(3, ep=1, cnt=1)], pfx, samedev=1),
        # two messages in one frame right after an open message (also against the real hashtable: F = 2)
        seq_shape([fr(1), fr(0, cnt=1, agg=1)], pfx), seq_shape([fr(1), fr(0, cnt=1, agg=3)], pfx), seq_shape([fr(1), fr(0, cnt=1, agg=2)], pfx),
    ]
    t = [seq_shape([fr(1, ln=a, trail=ta), fr(3, ln=b, trail=tb)], pfx) for a in (0, 1, 8, 24) for b in (0, 1, 8, 24) for ta in (0, 5) for tb in (0, 5)] + \
        [seq_shape([fr(1, ln=a), fr(2, ln=b), fr(2, ln=c), fr(3, ln=e)], pfx) for (a, b, c, e) in ((8, 8, 8, 8), (1, 0, 24, 3), (24, 24, 24, 24))] + \
        [seq_shape([fr(1, ep=0, cnt=0), fr(1, ep=1, cnt=0), fr(3, ep=1, cnt=1), fr(3, ep=0, cnt=1)], pfx, samedev=sd) for sd in (0, 1, 2)] + \
        [seq_shape([fr(1, ep=0, cnt=0), fr(0, ep=1, cnt=5), fr(2, ep=0, cnt=1), fr(3, ep=0, cnt=2)], pfx, samedev=sd) for sd in (0, 1, 2)]
    return q, t


PROPS["C05"] = {"jobs": lambda: (lambda q, t: seq_jobs(q + seq_family(5, 2) + seq_agg_family(5, "quick"), t + seq_family(5, 3) + seq_agg_family(5, "thorough")))(*c05_shapes(5)), "assumptions": COMMON_ASSUME + [
    "sequence shape (frame count, segment kind, endpoint pattern, declared and trailing byte counts, counter offsets) is concrete; ids, start counters and contents are symbolic",
    "schedule quantifier: the shapes are the interleavings of up to 4 frames over 2 endpoints listed in the evidence; the lift to all interleavings uses C18's isolation step (DESIGN.md section 2)",
    "expected deliveries come from an independent reference reassembler in harness/seq.cpp"],
    "level": "bounded symbolic model checking of frame sequences through the real Decoder against a reference reassembler"}


def seq_shape2(frames, pfx, samedev=0):
    d = seq_shape(frames, pfx, samedev)
    for i, f in enumerate(frames):
        if "dup" in f:
            d["DUP_%d" % i] = f["dup"]
    return d


def c06_shapes():
    P = 6
    q = [
        seq_shape2([fr(1, cnt=0), fr(2, cnt=1), fr(2, cnt=1, dup=1), fr(3, cnt=2)], P),         # duplicated intermediary
        seq_shape2([fr(1, cnt=0), fr(3, cnt=2)], P),                                             # dropped intermediary
        seq_shape2([fr(1, cnt=0), fr(3, cnt=2), fr(2, cnt=1)], P),                               # swapped
        seq_shape2([fr(1, cnt=0), fr(3, cnt=1, vx=1), fr(1, cnt=2), fr(3, cnt=3)], P),           # corrupt version, then recovery
        seq_shape2([fr(1, cnt=0), fr(3, cnt=1, tx=1), fr(0, cnt=2)], P),                         # corrupt type, then an unsegmented message
        seq_shape2([fr(1, cnt=0, ln=8), fr(1, cnt=2, ln=4), fr(3, cnt=1, ln=8), fr(3, cnt=3, ln=4)], P),  # two messages, frames swapped: no mix of fragments
        seq_shape2([fr(1, cnt=0), fr(1, cnt=0, dup=0), fr(3, cnt=1)], P),                        # duplicated first segment
        seq_shape2([fr(1, cnt=0), fr(2, cnt=1, tx=1), fr(3, cnt=2)], P),                         # corrupt type in the middle of a 3-segment message: no delivery with a hole
        seq_shape2([fr(1, cnt=0), fr(2, cnt=1, vx=1), fr(3, cnt=2)], P),                         # corrupt version in the middle
        seq_shape2([fr(1, cnt=0), fr(2, cnt=1, tx=1), fr(2, cnt=2), fr(3, cnt=3)], P),
        seq_shape2([fr(1, cnt=0), fr(2, cnt=1), fr(1, cnt=2, ln=3), fr(3, cnt=3, ln=5)], P),             # a new first segment after two accepted segments: nothing of the old message survives
    ]
    t = [
        seq_shape2([fr(1, cnt=0), fr(2, cnt=1), fr(3, cnt=2), fr(3, cnt=2, dup=2)], P),
        seq_shape2([fr(2, cnt=1), fr(1, cnt=0), fr(3, cnt=2)], P),
        seq_shape2([fr(3, cnt=2), fr(1, cnt=0), fr(2, cnt=1), fr(3, cnt=2, dup=0)], P),
        seq_shape2([fr(1, cnt=0), fr(2, cnt=1, vx=1), fr(3, cnt=2)], P),
        seq_shape2([fr(1, cnt=0), fr(2, cnt=1, tx=1), fr(3, cnt=2)], P),
        seq_shape2([fr(1, cnt=0), fr(0, cnt=1), fr(3, cnt=2)], P),
        seq_shape2([fr(1, cnt=0, ep=0), fr(1, cnt=0, ep=1), fr(3, cnt=1, ep=1), fr(3, cnt=2, ep=0)], P),
        seq_shape2([fr(1, cnt=0, ep=0), fr(3, cnt=1, ep=1), fr(3, cnt=1, ep=0)], P, samedev=1),
        seq_shape2([fr(1, cnt=0), fr(3, cnt=1, bad=1), fr(1, cnt=2), fr(3, cnt=3)], P),
        seq_shape2([fr(1, cnt=0), fr(2, cnt=1), fr(1, cnt=2), fr(3, cnt=3)], P),
        seq_shape2([fr(1, cnt=0, ln=3), fr(2, cnt=1, ln=5), fr(2, cnt=3, ln=7), fr(3, cnt=4, ln=2)], P),
    ]
    return q, t


def c17_shapes():
    P = 17
    q = [
        seq_shape2([fr(2, cnt=5), fr(3, cnt=6)], P),                         # orphan segments: no (default-constructed) entry may survive
        seq_shape2([fr(1), fr(3)], P),                                       # completed
        seq_shape2([fr(1, trail=6), fr(0, cnt=1)], P),                       # superseded by an unsegmented message
        seq_shape2([fr(1), fr(3, cnt=1, bad=1)], P),                         # aborted by an invalid message
        seq_shape2([fr(1), fr(3, cnt=1, bad=2)], P),
        seq_shape2([fr(1, ep=0, cnt=0), fr(1, ep=1, cnt=0), fr(3, ep=0, cnt=1)], P),
        seq_shape2([fr(1), fr(0, kind=1), fr(0, kind=2), fr(2, cnt=1)], P),  # TECMP-routed and undersized buffers change nothing
        seq_shape2([fr(1), fr(1, cnt=7, ln=3)], P),                          # superseded by a new first segment
        # two devices that share a stream id (and two streams of one device) with overlapping reassemblies: one completes, the other is then aborted
        seq_shape2([fr(1, ep=0, cnt=0), fr(1, ep=1, cnt=0), fr(3, ep=0, cnt=1), fr(0, ep=1, cnt=1)], P, samedev=2),
        seq_shape2([fr(1, ep=0, cnt=0), fr(1, ep=1, cnt=0), fr(3, ep=0, cnt=1), fr(0, ep=1, cnt=1)], P, samedev=1),
        seq_shape2([fr(1, ep=0, cnt=0), fr(1, ep=1, cnt=0), fr(2, ep=0, cnt=5), fr(0, ep=1, cnt=1, bad=1)], P, samedev=2),
    ]
    t = [
        seq_shape2([fr(1), fr(2, cnt=1), fr(2, cnt=3), fr(3, cnt=4)], P),
        seq_shape2([fr(3, cnt=0, ep=0), fr(2, cnt=0, ep=1), fr(1, cnt=1, ep=0), fr(3, cnt=1, ep=1)], P),
        seq_shape2([fr(1, vx=1), fr(3, cnt=1), fr(1, cnt=2, tx=1), fr(3, cnt=3)], P),
        seq_shape2([fr(1, ep=0, cnt=0), fr(1, ep=1, cnt=0), fr(0, ep=0, cnt=1, bad=1), fr(3, ep=1, cnt=1)], P, samedev=1),
        seq_shape2([fr(1, ep=0, cnt=0), fr(1, ep=1, cnt=0), fr(0, ep=0, cnt=1, bad=1), fr(3, ep=1, cnt=1)], P, samedev=2),
    ]
    return q, t


def c18_shapes():
    P = 18
    foreign = [fr(0, ep=1, cnt=0), fr(1, ep=1, cnt=0), fr(2, ep=1, cnt=9), fr(3, ep=1, cnt=9), fr(0, ep=1, cnt=0, bad=1), fr(0, ep=1, cnt=0, bad=2), fr(0, ep=1, kind=1), fr(0, ep=1, kind=2)]
    q = [seq_shape2([fr(1, ep=0, cnt=0), x, fr(3, ep=0, cnt=1)], P, samedev=sd) for x, sd in zip(foreign, (0, 1, 2, 1, 2, 1, 0, 0))]
    t = [seq_shape2([fr(1, ep=0, cnt=0), x, fr(3, ep=0, cnt=1)], P, samedev=sd) for x in foreign for sd in (0, 1, 2)] + \
        [seq_shape2([fr(1, ep=0, cnt=0), x, y, fr(3, ep=0, cnt=1)], P, samedev=1) for x in foreign[:4] for y in foreign[2:6]] + \
        [seq_shape2([fr(1, ep=1, cnt=0), fr(1, ep=0, cnt=0), fr(3, ep=1, cnt=1), fr(3, ep=0, cnt=1)], P, samedev=sd) for sd in (0, 1, 2)]
    return q, t


SEQ_ASSUME = COMMON_ASSUME + [
    "sequence shape (frame count, segment kind, endpoint pattern, declared/trailing byte counts, counter offsets, which frame is corrupted/duplicated) is concrete: hand-picked sequences plus a systematic family (an open message followed by every sequence of 2 (quick) / 3 (thorough) frames over a 14-frame alphabet of own-endpoint and foreign frames: continuation, last, unsegmented, other message type, invalid, new first, stale, skipping, other version, foreign first/unsegmented/invalid/last/TECMP); start counters and contents are symbolic; endpoint ids are concrete representatives (distinct device / same device other stream / same stream other device)",
    "Decoder's std::unordered_map is replaced by the fixed-capacity association-array model rt/stubinc/unordered_map (operator[] default-inserts, erase removes at most one entry): the real libstdc++ hashtable makes two-frame queries run out of memory (measured)",
    "TECMP::Decoder::Decode is cut in these harnesses: it is a static function of (data,size) and cannot reach a Decoder's pending table",
]
PROPS["C05"]["assumptions"] = SEQ_ASSUME + ["the lift from the listed interleavings (<= 4 frames, 2 endpoints) to all interleavings uses C18's isolation step and induction over the history (DESIGN.md section 2)"]
def seq_family(pfx, extra_len=2, samedev=1):
    """Systematic family: an open message on endpoint 0 (first segment), followed by every sequence of `extra_len` frames over
    an alphabet of own-endpoint and foreign-endpoint frames. Counters run consecutively per endpoint unless the frame is a
    deliberately stale / skipping one."""
    import itertools
    # (seg, ep, kwargs, counter mode: 'next' | 'stale' | 'skip')
    alpha = [
        (2, 0, {}, "next"), (3, 0, {}, "next"), (0, 0, {}, "next"), (0, 0, {"tx": 1}, "next"), (0, 0, {"bad": 1}, "next"), (1, 0, {"ln": 3}, "next"),
        (3, 0, {}, "stale"), (3, 0, {}, "skip"), (3, 0, {"vx": 1}, "next"),
        (1, 1, {}, "next"), (0, 1, {}, "next"), (0, 1, {"bad": 2}, "next"), (3, 1, {}, "next"), (0, 1, {"kind": 1}, "next"),
        (0, 0, {"kind": 3}, "next"),   # runt frame of the own endpoint (header + 5 bytes)
        (0, 0, {"kind": 4}, "next"),   # the same bytes behind a 0x00 first byte: routed to TECMP, too short for it
    ]
    shapes = []
    for combo in itertools.product(alpha, repeat=extra_len):
        frames = [fr(1, ep=0, cnt=0)]
        nxt = {0: 1, 1: 0}
        for (seg, ep, kw, mode) in combo:
            if mode == "next":
                c = nxt[ep]
            elif mode == "stale":
                c = 1          # the counter right after the very first segment, whatever came in between
            else:
                c = nxt[ep] + 1
            nxt[ep] = max(nxt[ep], c) + 1 if mode != "stale" else nxt[ep]
            frames.append(fr(seg, ep=ep, cnt=c, **kw))
        d = seq_shape2(frames, pfx, samedev=samedev)
        d.update({"START0": 65534, "START1": 65535})
        shapes.append(d)
    if extra_len >= 3:
        # 16^3 = 4096 continuations cost ~1.5 h per property; the thorough tier decides a VERIF_SEED-chosen 500 of them per
        # run (each one for all contents); successive seeds cover the family
        import random
        rnd = random.Random(1000 * pfx + int(os.environ.get("VERIF_SEED", "0") or 0))
        shapes = rnd.sample(shapes, 500)
    return shapes


def seq_agg_family(pfx, tier="quick", samedev=1):
    """Frames that carry two messages (seq.cpp AGG) inside a history: an open message on endpoint 0, then an aggregated frame
    (unsegmented + {unsegmented, orphan last segment, first segment, invalid message}) on the same or the other endpoint,
    before or after one frame of the single-message alphabet."""
    aggs = [(0, 0, {"agg": a}, "next") for a in (1, 2, 3, 4)] + [(0, 1, {"agg": a}, "next") for a in (1, 3)]
    alpha_q = [(3, 0, {}, "next"), (3, 0, {}, "stale"), (0, 0, {}, "next"), (1, 0, {"ln": 3}, "next"), (3, 1, {}, "next"), (2, 0, {}, "next")]
    alpha_t = alpha_q + [(0, 0, {"tx": 1}, "next"), (0, 0, {"bad": 1}, "next"), (3, 0, {}, "skip"), (3, 0, {"vx": 1}, "next"), (1, 1, {}, "next"), (0, 1, {}, "next"),
                         (0, 1, {"bad": 2}, "next"), (0, 1, {"kind": 1}, "next")]
    alpha = alpha_q if tier == "quick" else alpha_t
    combos = [(a, x) for a in aggs for x in alpha] + [(x, a) for a in aggs for x in (alpha[:3] if tier == "quick" else alpha)]
    if tier != "quick":
        combos += [(a, b) for a in aggs for b in aggs]
    shapes = []
    for combo in combos:
        frames = [fr(1, ep=0, cnt=0)]
        nxt = {0: 1, 1: 0}
        for (seg, ep, kw, mode) in combo:
            c = nxt[ep] if mode == "next" else (1 if mode == "stale" else nxt[ep] + 1)
            if mode != "stale":
                nxt[ep] = max(nxt[ep], c) + 1
            frames.append(fr(seg, ep=ep, cnt=c, **kw))
        d = seq_shape2(frames, pfx, samedev=samedev)
        d.update({"START0": 65534, "START1": 65535})
        shapes.append(d)
    return shapes


def c06_jobs():
    q, t = c06_shapes()
    q2, t2 = [], []
    for d in q:
        q2.append(dict(d, START0=65534, START1=65535))
        t2.append(dict(d, START0=0, START1=7))
        t2.append(dict(d, START0=65535, START1=65534))
        # (fully symbolic start counters in fault shapes exhaust memory for two of the shapes; C05 keeps them symbolic for the fault-free sequences)
    for d in t:
        t2.append(dict(d, START0=65534, START1=65535))
        t2.append(dict(d, START0=65533, START1=0))
    return seq_jobs(q2 + seq_family(6, 2), t2 + seq_family(6, 3))


PROPS["C06"] = {"jobs": c06_jobs, "assumptions": SEQ_ASSUME + [
    "start counters are concrete representatives in the fault shapes (65534/65535 so that the wrap falls inside the message, 0, 65533); symbolic-start variants run in the thorough tier", "fault quantifier: the listed fault sequences (drop, duplicate, swap, corrupt version/type, at the listed positions) are enumerated as shapes; the oracle is the property itself: every delivered packet equals one sent message (sent messages are computed from the shape), and a clean uninterrupted run is delivered"],
    "level": "bounded symbolic model checking of faulted frame sequences through the real Decoder (fault positions enumerated, contents and counters symbolic)"}
PROPS["C17"] = {"jobs": lambda: (lambda q, t: seq_jobs(q + seq_family(17, 2) + seq_agg_family(17, "quick"), t + seq_family(17, 3) + seq_agg_family(17, "thorough")))(*c17_shapes()), "assumptions": SEQ_ASSUME + [
    "pending table observed through the ASAM_CMP_VERIF friend hook; the model map's operator[] default-inserts like the real one, so an entry leaked by a lookup is visible",
    "history quantifier: every listed sequence starts from an empty table; together with C18 (other entries untouched) the per-endpoint step covers any history by induction"],
    "level": "bounded symbolic model checking of the pending-table contents after every decode call of a frame sequence"}
PROPS["C18"] = {"jobs": lambda: (lambda q, t: seq_jobs(q + seq_family(18, 2) + seq_agg_family(18, "quick"), t + seq_family(18, 3) + seq_agg_family(18, "thorough")))(*c18_shapes()), "assumptions": SEQ_ASSUME + [
    "isolation is checked as: the deliveries and pending entry of endpoint A are exactly those of the reference reassembler that sees only A's frames, whatever foreign frame (valid, invalid, orphan, TECMP-routed, undersized) is interleaved"],
    "level": "bounded symbolic model checking of interleaved two-endpoint sequences against a per-endpoint reference"}


# ------------------------------------------------------------------ C14 value semantics
def c14_jobs():
    jobs = []
    common = dict(unwind=60, in_max=140, mem_gb=3, outside="payloads > 24 bytes; typed payloads other than generic and CAN")
    sym = "all message bytes of source and target, version, ids, counters, vendor id, segment type"
    for op in range(6):
        for la in (-1, 0, 1, 8):
            for lb in ((-1, 0, 8) if op in (2, 3) else (-1,)):
                for pt in (0xFE, 1):
                    if pt == 1 and la not in (8,):
                        continue
                    quick = (la in (-1, 8) and lb in (-1, 8) and pt == 0xFE) or (op in (0, 2) and pt == 1 and lb == -1) or (la == 0 and lb in (-1, 8) and pt == 0xFE)
                    la2 = 24 if (pt == 1 and la == 8) else la
                    jobs.append(Job("c14.cpp", "h_packet_value", defs={"OP": op, "LA": la2, "LB": lb, "PT": pt}, tier="quick" if quick else "thorough", sym=sym, **common))
    # sources whose typed payload was installed through setPayload (CAN built through the API, flags incl. bus-error bits symbolic)
    for op, lb, tier in ((0, -1, "quick"), (2, 8, "quick"), (2, -1, "thorough"), (1, -1, "quick"), (3, 8, "thorough"), (5, -1, "thorough")):
        jobs.append(Job("c14.cpp", "h_packet_value", defs={"OP": op, "LA": 24, "LB": lb, "PT": 1, "SRCSET": 1}, tier=tier, sym=sym + "; CAN id, flags, error position", **common))
    for la in (-1, 0, 1, 8):
        for lb in (-1, 0, 1, 8):
            quick = (la, lb) in ((8, 8), (-1, -1), (0, 0), (8, 1), (-1, 0))
            jobs.append(Job("c14.cpp", "h_packet_eq", defs={"LA": la, "LB": lb}, tier="quick" if quick else "thorough", sym=sym, **common))
    for la in (0, 1, 8):
        jobs.append(Job("c14.cpp", "h_packet_assign_diff", defs={"LA": la}, tier="quick", sym="message bytes, which field differs", **common))
    for la in (0, 1, 8):
        for lb in (0, 1, 8):
            quick = (la, lb) in ((8, 8), (0, 0), (1, 8))
            jobs.append(Job("c14.cpp", "h_payload_eq", defs={"LA": la, "LB": lb}, tier="quick" if quick else "thorough", sym="payload bytes and payload-type bytes of both operands", **common))
    return jobs


PROPS["C14"] = {"jobs": c14_jobs, "assumptions": COMMON_ASSUME + ["payload lengths, the operation and presence of a payload object are concrete shape parameters",
    "source packets are built from symbolic message bytes through the Packet constructor, or (SRCSET shapes) carry a CAN payload built through the typed API and installed with setPayload, whose flags may include bus-error bits"],
                "level": "bounded symbolic model checking of copy/move/assign/compare on packets and payloads built from symbolic messages"}


# ------------------------------------------------------------------ C16 status tracker
def c16_op(kind, d=0, i=0):
    return {"cm": 0, "if": 1, "data": 2, "rmdev": 3, "rmif": 4, "clear": 5, "vstat": 6}[kind] * 16 + d * 4 + i


def c16_seq(seqs):
    flat = []
    for ops in seqs:
        flat += list(ops) + [0] * (8 - len(ops))
    return {"VP_CDEF_NSEQ": len(seqs), "VP_CDEF_LENS": ",".join(str(len(o)) for o in seqs), "VP_CDEF_OPS": ",".join(str(o) for o in flat)}


def c16_jobs():
    import itertools
    import os
    import random
    o = c16_op
    quick = [
        [o("cm", 0), o("if", 0, 0), o("if", 0, 1), o("rmif", 0, 0), o("if", 0, 1), o("if", 0, 0)],     # swap-with-last, then updates again
        [o("cm", 0), o("cm", 1), o("cm", 2), o("rmdev", 0), o("cm", 1), o("cm", 0)],                  # which device survives the swap
        [o("if", 0, 0), o("cm", 0), o("if", 0, 0), o("data", 0), o("cm", 0)],                         # interface status before device status
        [o("cm", 0), o("if", 1, 0), o("data", 1), o("vstat", 1), o("rmdev", 1), o("rmif", 1, 0)],     # unknown devices change nothing
        [o("cm", 0), o("if", 0, 0), o("cm", 1), o("if", 1, 0), o("rmdev", 0), o("if", 1, 1)],
        [o("cm", 0), o("if", 0, 2), o("clear"), o("if", 0, 2), o("cm", 0), o("if", 0, 2)],
        [o("cm", 2), o("if", 2, 0), o("if", 2, 1), o("if", 2, 2), o("rmif", 2, 1), o("rmif", 2, 2)],
        [o("cm", 0), o("cm", 1), o("rmdev", 1), o("rmdev", 0), o("cm", 1), o("if", 1, 1)],
        [o("cm", 0), o("if", 0, 0), o("rmdev", 0), o("cm", 0), o("vstat", 0), o("if", 0, 1)],         # removed device comes back without its interfaces
        [o("cm", 1), o("cm", 1), o("if", 1, 0), o("if", 1, 0), o("cm", 1), o("data", 1)],             # latest wins
    ]
    # systematic quick family: two known devices, then every sequence of 3 operations over a 6-operation alphabet that
    # contains at least one removal / clear
    fam = [o("cm", 0), o("if", 0, 0), o("if", 1, 0), o("data", 0, 1), o("rmdev", 0), o("rmdev", 1), o("clear")]
    removing = {o("rmdev", 0), o("rmdev", 1), o("clear")}
    for combo in itertools.product(fam, repeat=3):
        if removing & set(combo):
            quick.append([o("cm", 0), o("cm", 1)] + list(combo))
    quick.append([o("cm", 0), o("data", 0, 1), o("data", 0, 2), o("if", 0, 0), o("data", 0, 2)])
    quick.append([o("cm", 1), o("if", 1, 1), o("data", 1, 1), o("cm", 1), o("data", 1, 2), o("data", 1, 0)])
    alphabet = [o("cm", d) for d in (0, 1)] + [o("if", d, i) for d in (0, 1) for i in (0, 1)] + [o("data", 0), o("rmdev", 0), o("rmdev", 1), o("rmif", 0, 0), o("rmif", 0, 1), o("clear")]
    thorough = [list(p) for n in (1, 2) for p in itertools.product(alphabet, repeat=n)]
    rnd = random.Random(int(os.environ.get("VERIF_SEED", "0") or 0))
    full = [o(k, d, i) for k in ("cm", "if", "data", "rmdev", "rmif", "vstat") for d in (0, 1, 2) for i in (0, 1, 2)] + [o("clear")]
    for _ in range(120):
        thorough.append([rnd.choice(full) for _ in range(rnd.choice((4, 5, 6)))])
    jobs, seen = [], set()
    for tier, seqs in (("quick", quick), ("thorough", thorough)):
        todo = []
        for ops in seqs:
            if tuple(ops) in seen:
                continue
            seen.add(tuple(ops))
            todo.append(ops)
        for i in range(0, len(todo), 1):
            chunk = todo[i:i + 1]
            jobs.append(Job("c16.cpp", "h_status", cdefs=c16_seq(chunk), unwind=60, in_max=60 * max(len(o) for o in chunk) + 8, mem_gb=4, tier=tier,
                            sym="payload contents of every packet (the tracker never branches on them); ids and identity tags are concrete",
                            outside="more than 3 devices / 3 interfaces per device, sequences longer than 6 operations; ids are concrete representatives that collide in their low 8 / 16 bits (0x010A, 0xFF0A, 0x000A / 0x00010007, 0xFFFF0107, 0x00000007; all id values: h_status_ids); "
                                    "one operation sequence per query",
                            note="%d sequences: %s" % (len(chunk), "; ".join(",".join(str(x) for x in o) for o in chunk[:3]))))
    for step in (0, 1, 3):   # IDSTEP 2 (interface status of a never-seen device, symbolic id) exhausts memory; the concrete sequences cover it with colliding ids
        jobs.append(Job("c16.cpp", "h_status_devids", defs={"IDSTEP": step}, unwind=60, in_max=16, mem_gb=4, tier="quick", sym="two device ids (all pairs of distinct 16-bit values)", outside="more than two entries in this query"))
        if step != 2:
            jobs.append(Job("c16.cpp", "h_status_ifids", defs={"IDSTEP": step}, unwind=60, in_max=16, mem_gb=4, tier="quick", sym="two interface ids (all pairs of distinct 32-bit values)", outside="more than two entries in this query"))
    return jobs


PROPS["C16"] = {"jobs": c16_jobs, "assumptions": COMMON_ASSUME + [
    "operation sequences are concrete shapes: hand-picked sequences plus, after two known devices, every sequence of 3 operations over a 6-operation alphabet containing a removal or clear (quick), all sequences of length <= 2 over a 13-operation alphabet plus 120 VERIF_SEED-chosen sequences of length 4-6 (thorough); packet contents are symbolic",
    "the oracle is a ghost map kept by the harness (device -> latest tag, interface -> latest tag), compared as a map (entry order is not part of the property)",
    "ids in the sequences are concrete representatives that collide in their low 8 / 16 bits; that lookups, removals and updates compare whole ids is decided for all pairs of distinct ids by h_status_devids / h_status_ifids (one entry present)"],
    "level": "bounded symbolic model checking of operation sequences on the real Status object against a ghost map"}


# ------------------------------------------------------------------ TECMP (C15, C02 family iii)
def tecmp_jobs():
    jobs = []

    def add(n, mt, dt=-1, dlc=-1, decl=-1, tier="quick"):
        e = max((n - 40) // 12, 0) + 2
        jobs.append(Job("tecmp.cpp", "h_tecmp", defs={"N": n, "MT": mt, "DT": dt, "DLC": dlc, "DECL": decl}, unwind=max(220, n + 20),
                        unwindset={("TECMP7Decoder", None): e + 1, ("_M_realloc_insert", None): e + 1, ("_M_release", None): 3, ("_Sp_counted", None): 3},
                        tier=tier, in_max=n + 8, mem_gb=6,
                        sym="every frame byte except byte 0 (= 0, TECMP routing), the message type byte, the declared payload length and (data messages) the data type and the inner "
                            "dlc / data-length byte: device id, counter, version, flags, interface id, timestamp, data flags, arbitration id / pid, all data bytes; "
                            "bus status: data type symbolic over all 65536 values",
                        outside="data frames > 76 bytes, bus-status frames > 520 bytes (40 entries); message type bytes other than 0,2,3,4,0x0A,0x55,0xFF; TECMP capture-module status (message type 1): its conversion calls "
                                "std::stringstream / std::to_string, which live in libstdc++.so and have no IR"))

    # bus status: data type symbolic, every size
    for n in range(0, 77):
        add(n, 2, tier="quick" if n in (12, 28, 33, 39, 40, 51, 52, 64, 76) else "thorough")
    # long bus-status messages (property: 0..40 entries)
    for n, tier in ((28 + 12 + 12 * 10, "quick"), (28 + 12 + 12 * 22, "thorough"), (28 + 12 + 12 * 40, "thorough"), (28 + 12 + 12 * 10 + 5, "thorough")):   # (30 entries + 5 trailing bytes ran out of memory)
        add(n, 2, tier=tier)
    # bus status with a concrete vendor-data length in the generic part (entries stay 12 bytes whatever it says)
    for n, vdl, tier in ((57, 5, "quick"), (76, 16, "quick"), (64, 5, "thorough"), (64, 12, "thorough"), (76, 0xFFFF, "thorough"), (52, 4, "thorough"), (52, 16, "thorough")):
        add(n, 2, tier=tier)
        jobs[-1].defs["VDL"] = vdl
    # capture-module status: only the shapes that must be rejected (payload shorter than the 36-byte fixed part). The
    # conversion itself calls std::stringstream / std::to_string (libstdc++.so, no IR) and made symex crawl even with
    # std::string instantiated from the headers (variant "str", kept in the driver) - outside the claim.
    for n in (28, 29, 40, 52, 63):
        add(n, 1, tier="quick" if n in (29, 63) else "thorough")
    # the conversion with concrete serial number / version bytes (variant "str": std::string instantiated from the headers;
    # the two stringstream formatters are replaced by equivalent std::string formatters in the harness)
    for (serial, ver, ver2, n, tier) in ((123456, 0x04030201, 5, 64, "quick"), (0, 0, 0, 64, "quick"), (4294967295, 0xFFFFFFFF, 255, 70, "quick"), (10, 0x0A0964FF, 99, 64, "thorough"), (999999999, 0x01000001, 10, 66, "thorough")):
        jobs.append(Job("tecmp.cpp", "h_tecmp", defs={"N": n, "MT": 1, "DT": 0, "DLC": -1, "DECL": -1, "CMSERIAL": serial, "CMVER": ver, "CMVER2": ver2}, unwind=260, variant="str",
                        unwindset={("TECMP7Decoder", None): 3, ("_M_realloc_insert", None): 3, ("_M_release", None): 3, ("_Sp_counted", None): 3},
                        tier=tier, in_max=n + 8, mem_gb=8,
                        sym="device id, counter, flags, interface id, timestamp, data type, all vendor-data bytes other than serial number and version bytes",
                        outside="serial number and version bytes are concrete (their decimal renderings are allocation sizes); std::stringstream formatting is replaced by an equivalent std::string formatter"))
    # ... and with a concrete vendor-data length field that announces more (or less) than the frame holds
    for (vdl, n, tier) in ((80, 64, "quick"), (0, 64, "thorough"), (0xFFFF, 70, "thorough"), (24, 64, "thorough")):
        jobs.append(Job("tecmp.cpp", "h_tecmp", defs={"N": n, "MT": 1, "DT": 0, "DLC": -1, "DECL": -1, "CMSERIAL": 123456, "CMVER": 0x04030201, "CMVER2": 5, "CMVDL": vdl}, unwind=260, variant="str",
                        unwindset={("TECMP7Decoder", None): 3, ("_M_realloc_insert", None): 3, ("_M_release", None): 3, ("_Sp_counted", None): 3},
                        tier=tier, in_max=n + 8, mem_gb=8,
                        sym="device id, counter, flags, interface id, timestamp, data type, all status bytes other than serial number, version bytes and the vendor-data length",
                        outside="serial number, version bytes and vendor-data length are concrete; std::stringstream formatting is replaced by an equivalent std::string formatter"))
    jobs.append(Job("tecmp.cpp", "h_tecmp_cm_twice", defs={"N": 64, "MT": 1, "DT": -1, "DLC": -1, "DECL": -1, "CMSERIAL": 77}, unwind=260, variant="str",
                    unwindset={("TECMP7Decoder", None): 3, ("_M_realloc_insert", None): 3, ("_M_release", None): 3, ("_Sp_counted", None): 3},
                    tier="quick", in_max=2 * 64 + 8, mem_gb=10, timeout=400,
                    sym="all bytes of both status frames except routing/type/length, serial number and version bytes", outside="two calls; concrete serial number and version bytes"))
    # every message type value (one concrete shape each: a symbolic type byte, even restricted to the unsupported values, makes
    # CBMC encode all three supported paths under unsatisfiable guards and runs out of memory) ...
    for mt in range(256):
        if mt not in (1, 2, 3):
            add(40, mt, tier="thorough")
    # ... and the data types that a masked / byte-swapped / truncated comparison would confuse with CAN, CAN-FD, LIN
    for dt in sorted(set(range(256)) | {(h << 8) | l for h in range(1, 256) for l in (2, 3, 4)} | {0x0200, 0x0300, 0x0400}):
        if dt not in (2, 3, 4):
            add(44, 3, dt=dt, dlc=8, tier="quick" if dt in (0x0102, 0x0200, 0x8003, 0xFF04) else "thorough")
    # unsupported message kinds
    for mt in (0, 4, 0x0A, 0x55, 0xFF):
        for n in (28, 40, 60):
            add(n, mt, tier="quick" if (mt, n) in ((0x55, 40), (0, 40), (4, 28)) else "thorough")
    # data messages: data type and inner length byte are shapes
    for dt in (2, 3, 4):
        hdr = 2 if dt == 4 else 5
        for n in (0, 27, 28, 28 + hdr - 1, 28 + hdr, 28 + hdr + 1, 28 + hdr + 8, 28 + hdr + 9, 28 + hdr + 12, 28 + hdr + 20):
            p = max(n - 28, 0)
            cand = sorted({0, 1, 8, 9, max(p - hdr, 0), max(p - hdr, 0) + 1, max(p - hdr - 1, 0), max(p - hdr - 3, 0), 255})
            for dlc in cand:
                q = (dt in (2, 4)) and n in (28 + hdr + 8, 28 + hdr + 12, 28 + hdr - 1, 28 + hdr) and dlc in (0, 8, max(p - hdr, 0), max(p - hdr, 0) + 1, max(p - hdr - 1, 0))
                add(n, 3, dt=dt, dlc=dlc, tier="quick" if q else "thorough")
    for dt in (0, 1, 5, 8, 0x10, 0x20, 0x80, 0xFF, 0xFF00, 0xFFFF):
        add(44, 3, dt=dt, dlc=8, tier="quick" if dt in (0x80, 0xFFFF, 8) else "thorough")
    for decl in (0, 1, 17, 0xFFE3, 0xFFE4, 0xFFFF, 0x8000):
        add(44, 3, dt=2, dlc=8, decl=decl, tier="quick" if decl in (0, 17, 0xFFE4) else "thorough")
    # the header gate alone, with the declared length (and every header byte) symbolic; HSZ=-1: size argument symbolic too
    for hsz in (-1, 0, 1, 27, 28, 29, 40, 44, 64, 100, 300):
        jobs.append(Job("tecmp.cpp", "h_tecmp_header", defs={"HSZ": hsz, "N": 40, "MT": 3}, unwind=320, tier="quick" if hsz in (-1, 27, 28, 29, 44) else "thorough",
                        in_max=max(hsz, 28) + 16, mem_gb=2,
                        sym="all 28 header bytes incl. the declared payload length (all 65536 values); HSZ=-1: the size argument over all 64-bit values >= 28",
                        outside="HSZ=-1 relies on the gate reading only the 28 header bytes (checked by the pointer checks of the same run)"))
    seen, out = set(), []
    for j in jobs:
        k = tuple(sorted(j.defs.items()))
        if k not in seen:
            seen.add(k)
            out.append(j)
    return out


PROPS["C15"] = {"jobs": tecmp_jobs, "assumptions": COMMON_ASSUME + [
    "frame size and the TECMP message type byte are concrete shape parameters (bus status 2, data 3, unsupported kinds 0, 4, 0x0A, 0x55, 0xFF); the data type is symbolic over all 65536 values",
    "TECMP capture-module status conversion (message type 1) is outside this check: std::stringstream/std::to_string are out-of-line in libstdc++.so (no IR to encode)",
    "oracle: an independent TECMP parse in harness/tecmp.cpp"],
    "level": "bounded symbolic model checking of TECMP decode+convert against an independent parse, incl. inconsistent inner lengths"}
def _c02_tecmp():
    # the exhaustive enumeration of unsupported type values is C15's business; C02 keeps the representatives
    return [j for j in tecmp_jobs() if not (j.tier == "thorough" and j.entry == "h_tecmp" and ((j.defs["N"] == 40 and j.defs["MT"] not in (0, 1, 2, 3, 4, 0x0A, 0x55, 0xFF)) or j.defs["DT"] > 0xFF))]


def _c02_history():
    """'after any history of earlier decode calls': sequences of 2-4 frames through one decoder (exact heap buffer per frame,
    freed after the call, delivered packets read afterwards) with CBMC's pointer checks; the sequence oracles (C05) are foreign
    to C02 and skipped, the memory checks are not."""
    q5, t5 = c05_shapes(5)
    fam = seq_family(5, 2)
    jobs = [j for j in seq_jobs(q5 + fam[::32] + seq_agg_family(5, "quick")[::6], t5[::3] + fam[1::5] + seq_agg_family(5, "thorough")[::4]) if j.entry == "h_seq"]
    return jobs


def _gate_jobs():
    """the CMP message gate with the declared length symbolic (c03.cpp h_packet_gate carries C02/C03/C04-labelled assertions)"""
    return [j for j in c03_jobs() if j.entry == "h_packet_gate"]


PROPS["C02"]["jobs"] = lambda: c02_jobs() + _c02_tecmp() + _c02_history() + _gate_jobs()


# ------------------------------------------------------------------ C01 round trip
def c01_jobs():
    jobs, seen = [], set()

    def add(lens, types=None, maxb=64, minb=0, api=None, pkind=0, symids=1, variant="mapmodel", tier="quick", flg=0x33, ver=1, timeout=None, tflags=0, startc=-1, prior=0):
        d = enc_shape(lens, types, maxb, minb, api)
        if any(16 + l > maxb - 8 for l in lens):
            symids = 0   # reassembly looks the endpoint up again: a symbolic key makes the found entry (and its sizes) a symbolic merge
        nseg = max([-(-l // (maxb - 24)) for l in lens if 16 + l > maxb - 8] + [0])
        d.update({"PKIND": pkind, "SYMIDS": symids, "FLG": flg, "VERB": ver, "TFLAGS": tflags, "PRIOR": prior, "STARTC": (startc if (startc >= 0 or nseg == 0 or (nseg <= 2 and len(lens) == 1)) else 65534)})
        key = (tuple(sorted(d.items())), variant)
        if key in seen:
            return
        seen.add(key)
        jobs.append(Job("rt.cpp", "h_roundtrip", defs=d, unwind=1200, unwindset={("Decoder6decode", None): 5, ("_M_realloc_insert", None): 5, ("_Hashtable", None): 4, ("_M_release", None): 3},
                        tier=tier, in_max=enc_in_max(d), mem_gb=8, variant=variant, timeout=timeout,
                        sym="payload data bytes, timestamps, interface/vendor ids, typed header fields (CAN id/crc/flags, LIN id/checksum, Ethernet flags, analog unit/interval/offset, status counters, string characters), encoder device/stream id (where SYMIDS=1), "
                            "sequence-counter start (all 65536 values; concrete 65534 for shapes with 3 or more frames of which some are segments)",
                        outside="common flags and protocol version are concrete per shape (0x33 / 1, variants in thorough); payloads > 136 bytes; more than 3 packets; max frame size > 64 (quick)"))

    # quick: generic payloads, aggregation and segmentation boundaries, mixed types; CAN
    for lens, types, kw in (
        ([8], None, {}), ([16], None, {"maxb": 40}), ([17], None, {"maxb": 40}), ([33], None, {"maxb": 40}), ([20], None, {"maxb": 40, "minb": 40}),
        ([32], None, {"maxb": 40}), ([48], None, {"maxb": 40}), ([8, 32], None, {"maxb": 40}), ([8, 33], None, {}), ([8, 40], None, {}),   # payload = k x segment capacity (k = 2, 3): the last segment fills its frame exactly
        ([8, 8], None, {}), ([8, 8], [1, 3], {}), ([8, 41], None, {}), ([41, 8], None, {}), ([8, 8, 8], [1, 3, 1], {}), ([4, 41, 4], None, {}), ([8], [0xFF], {}), ([8], [2], {}),
        ([24], None, {"pkind": 1}), ([24, 24], None, {"pkind": 1, "maxb": 100}), ([16], None, {"pkind": 3}), ([30], None, {"pkind": 8}),
    ):
        add(lens, types, **kw)
    # analog, capture-module status and interface status payloads built through their builders
    add([24], None, pkind=7)
    add([48], [3], pkind=101, maxb=100)
    add([46], [3], pkind=102, maxb=100)
    add([47], [3], pkind=101, maxb=100)   # odd vendor-data lengths
    add([45], [3], pkind=102, maxb=100)
    add([48], [3], pkind=101, maxb=48, tier="thorough", timeout=1200)
    add([40, 24], None, pkind=7, maxb=64, tier="thorough", timeout=1200)
    add([8, 8], None, symids=0, variant="real")
    add([8], None, prior=1)
    add([17], None, maxb=40, prior=1, startc=5)
    add([8, 8], [1, 3], prior=1)
    add([17], None, maxb=40, symids=0, variant="real", startc=65535, tier="thorough", timeout=1500)
    # thorough: boundaries for every frame size, both min settings, flags/version variants, real hashtable on more shapes
    for mb in (25, 40, 64):
        for mn in (0, mb):
            for l in sorted({1, mb - 25, mb - 24, mb - 23, 2 * (mb - 24), 2 * (mb - 24) + 1}):
                if l >= 1:
                    add([l], None, maxb=mb, minb=mn, tier="thorough")
    for (a, b) in ((8, 8), (8, 40), (8, 41), (40, 8), (41, 8), (41, 41), (33, 8), (81, 8)):
        for (ta, tb) in ((1, 1), (1, 3), (3, 0xFF), (2, 2)):
            add([a, b], [ta, tb], tier="thorough")
    for (a, b, c) in ((8, 8, 8), (8, 41, 8), (41, 8, 8), (8, 8, 41), (81, 8, 8)):
        for api in (1, 2):
            add([a, b, c], [1, 1, 1], api=api, tier="thorough")
    for flg, ver in ((0x00, 1), (0xBF, 2), (0x3F, 0xFF)):
        add([8, 41], None, flg=flg, ver=ver, tier="thorough")
    for pk, l in ((1, 16), (1, 24), (2, 80), (3, 8), (3, 16), (8, 6), (8, 46)):
        add([l], None, pkind=pk, tier="thorough", tflags=1, timeout=1200)
        add([l, l], None, pkind=pk, maxb=100, tier="thorough", timeout=1200)
    for lens in ([8], [41]):   # [8, 41] and [41, 41] on the real hashtable exhaust 14 GB: mapmodel only
        add(lens, None, symids=0, variant="real", tier="thorough", timeout=1500)
    return jobs


PROPS["C01"] = {"jobs": c01_jobs, "assumptions": ENC_ASSUME + [
    "direct composition: real Encoder::encode, then every frame in order through one real Decoder; most shapes run against the unordered_map model with symbolic device/stream ids, "
    "some against the real libstdc++ unordered_map with concrete ids",
    "common flags, protocol version and payload-type byte are concrete per shape (a symbolic value makes the decoder's segment/type dispatch symbolic for CBMC)"],
    "level": "bounded symbolic model checking of the composed encode->decode pipeline per batch shape, all contents symbolic"}


# ------------------------------------------------------------------ C13 payload builders
def c13_jobs():
    jobs = []

    def add(defs, tier="quick", entry="h_build"):
        n = sum(v for k, v in defs.items() if k in ("N", "PN", "V", "PV", "S0", "S1", "S2", "S3", "P0", "P1", "P2", "P3") and v > 0)
        jobs.append(Job("c13.cpp", entry, defs=defs, unwind=200, in_max=n + 48, mem_gb=3, tier=tier,
                        sym="all data bytes (final and earlier), all header field values set through the API (ids, flags, checksums, counters), string characters (non-NUL)",
                        outside="data longer than 64 bytes (72 for re-set priors), strings longer than 5 characters, more than 5 stream ids / vendor bytes; embedded NULs; lengths are concrete shape parameters"))

    for cls in (1, 2, 3, 4, 5):
        lens = {1: (0, 1, 8), 2: (0, 8, 12, 16, 20, 24, 32, 48, 64, 9), 3: (0, 1, 8), 4: (0, 1, 46), 5: (0, 2, 6, 8)}[cls]
        for n in lens:
            for pn in (-1, 0, 4, n + 3):
                q = (pn in (-1, n + 3)) and n in (0, 8, 12, 64, 46, 6)
                add({"CLS": cls, "N": n, "PN": pn}, "quick" if q else "thorough")
        if cls in (1, 2):
            add({"CLS": cls}, "quick", entry="h_dlc")
        # a large block replaced by a much smaller one (buffer shrink paths)
        big, small = {1: (8, 1), 2: (64, 8), 3: (40, 2), 4: (64, 1), 5: (64, 2)}[cls]
        add({"CLS": cls, "N": small, "PN": big}, "quick")
        add({"CLS": cls, "N": 0, "PN": big}, "thorough")
        # an empty block passed as (nullptr, 0), onto a fresh object and onto one that holds data
        add({"CLS": cls, "N": 0, "PN": 4, "NULLP": 1}, "quick")
        add({"CLS": cls, "N": 0, "PN": -1, "NULLP": 1}, "thorough")
        # earlier state taken from arbitrary valid raw bytes (decoder-constructed object), same and different length
        if cls in (1, 2, 3):
            for (n, pn, t) in {1: ((8, 8, "quick"), (0, 0, "quick"), (4, 8, "thorough")), 2: ((12, 12, "quick"), (64, 64, "thorough"), (8, 8, "quick"), (16, 12, "thorough")), 3: ((8, 8, "quick"), (0, 3, "thorough"))}[cls]:
                add({"CLS": cls, "N": n, "PN": pn, "PRAW": 1}, t)
    # capture-module status: string length parities, re-set after longer / shorter / different content
    for (s, v) in (((0, 0, 0, 0), 0), ((1, 2, 0, 3), 0), ((2, 1, 3, 0), 3), ((5, 0, 1, 4), 2), ((1, 1, 1, 1), 1)):
        for (p, pv) in ((None, -1), ((3, 3, 3, 3), 4), ((0, 1, 0, 1), 0), ((2, 0, 4, 1), 1)):
            d = {"CLS": 6, "S0": s[0], "S1": s[1], "S2": s[2], "S3": s[3], "V": v, "PV": pv}
            if p:
                d.update({"P0": p[0], "P1": p[1], "P2": p[2], "P3": p[3]})
            q = (p is None or p == (3, 3, 3, 3)) and s in ((1, 2, 0, 3), (2, 1, 3, 0), (0, 0, 0, 0))
            add(d, "quick" if q else "thorough")
    # capture-module status: length fields whose low byte is >= 0x80 and lengths that need the high byte (a length read or written
    # through a signed char / a single byte shows only there)
    for (s_, v, tier) in (((127, 0, 0, 0), 0, "quick"), ((0, 0, 0, 0), 128, "quick"), ((0, 0, 0, 0), 200, "thorough"), ((0, 130, 0, 0), 1, "thorough"), ((0, 0, 0, 255), 0, "quick"),
                          ((0, 0, 256, 0), 0, "thorough"), ((0, 0, 0, 0), 256, "quick"), ((0, 0, 0, 0), 400, "thorough")):
        jobs.append(Job("c13.cpp", "h_build", defs={"CLS": 6, "S0": s_[0], "S1": s_[1], "S2": s_[2], "S3": s_[3], "V": v, "PV": -1, "DMAX": 512, "MSGMAX": 480}, unwind=520, in_max=sum(s_) + v + 48, mem_gb=4, tier=tier,
                        sym="all string characters (non-NUL) and vendor bytes, uptime, gPTP flags", outside="strings / vendor data beyond 400 bytes; re-set priors at these sizes"))
    # interface status: count / vendor-length parities, re-set after longer / shorter
    for n in (0, 1, 2, 3, 5):
        for v in (0, 1, 2, 3):
            for (pn, pv) in ((-1, -1), (n + 1, v), (n + 2, v + 1), (max(n - 1, 0), v + 2), (4, 4)):
                q = (pn in (-1, n + 1, 4)) and (n, v) in ((0, 0), (1, 2), (2, 1), (3, 3), (1, 0))
                add({"CLS": 7, "N": n, "V": v, "PN": pn, "PV": pv}, "quick" if q else "thorough")
    return jobs


PROPS["C13"] = {"jobs": c13_jobs, "assumptions": COMMON_ASSUME + [
    "data / string / list lengths (final and of the earlier setData call) are concrete shape parameters; contents and header field values are symbolic",
    "'depends only on the final logical content' is checked as a two-object self-composition: an object that was set before with other data and a fresh object, after the same final calls, have equal raw bytes",
    "prior states are API-built (default construction plus earlier setter calls); for CAN, CAN-FD and LIN also objects constructed from arbitrary raw bytes their validator accepts (PRAW shapes)",
    "capture-module strings / vendor data: lengths 0..5 in all parities and re-set combinations, plus single long fields of 127, 255, 256 (thorough: 130, 200, 400) bytes so that length fields with a low byte >= 0x80 and with a non-zero high byte occur"],
    "level": "bounded symbolic model checking of the payload builders against getters, wire form, validators and a fresh-object twin"}


# ------------------------------------------------------------------ C20 uninitialised memory (two-run self-composition)
def c20_jobs():
    jobs = []
    sym2 = "the inputs are shared by both runs; every fresh allocation, uninitialised local and LLVM undef is an independent arbitrary value in each run"
    for d, tier in ((enc_shape([8], maxb=64, minb=64), "quick"), (enc_shape([8], [2], minb=40), "quick"), (enc_shape([8], [3], minb=0), "quick"), (enc_shape([17], maxb=40, minb=36), "quick"),
                    (enc_shape([8, 8], [1, 3], minb=64), "quick"), (enc_shape([8], [0xFF], minb=33), "thorough"), (enc_shape([8, 41, 8], minb=64), "thorough"), (enc_shape([33], maxb=40, minb=40), "thorough")):
        jobs.append(Job("c20.cpp", "h_c20_encode", defs=d, unwind=1200, tier=tier, in_max=enc_in_max(d), mem_gb=4, sym=ENC_SYM + "; " + sym2, outside=ENC_OUT))
    # typed payloads (CAN, Ethernet, analog at 40+ bytes, status at 64) take 20-30 min per two-run query or exceed it: not registered;
    # typed decode is covered byte-exactly by C04's wire comparison
    for (n, mt, pt, q) in ((32, 1, 0xFE, 1), (32, 1, 3, 0), (40, 3, 0xFE, 1), (24, 2, 0x10, 1), (48, 0xFF, 0x7F, 1), (33, 1, 0xFE, 0), (41, 3, 0xFE, 0)):
        jobs.append(Job("c20.cpp", "h_c20_decode", defs={"NB": n, "VER": 1, "DMT": mt, "DPT": pt}, unwind=4 * n + 40, unwindset=dec_unwindset(n), tier="quick" if q else "thorough", in_max=n + 8, mem_gb=8,
                        sym="every frame byte except version, message type, the first message's flags, payload type and declared length; " + sym2, outside="frames > 64 bytes", timeout=None if q else 1800))
    for (mt, dt, dlc, n) in ((3, 2, 4, 40), (3, 2, 9, 44), (3, 2, 9, 45), (3, 3, 12, 49), (3, 2, 4, 37), (3, 4, 3, 36), (3, 4, 3, 34), (3, 4, 3, 33), (2, 0, 0, 52), (2, 0, 0, 64)):
        jobs.append(Job("c20.cpp", "h_c20_tecmp", defs={"NB": n, "TMT": mt, "TDT": dt, "TDLC": dlc}, unwind=220,
                        unwindset={("TECMP7Decoder", None): 5, ("_M_realloc_insert", None): 5, ("_M_release", None): 3, ("_Sp_counted", None): 3},
                        tier="quick" if (mt, dt, n) in ((3, 2, 40), (3, 2, 45), (3, 4, 36), (3, 4, 33), (2, 0, 52)) else "thorough", in_max=n + 8, mem_gb=6,
                        sym="every TECMP frame byte except routing byte, message type, data type, declared length and dlc; " + sym2, outside="frames > 64 bytes; TECMP capture-module status"))
    for (mt, dt, dlc, n, tier) in ((3, 2, 9, 45, "quick"),):
        jobs.append(Job("c20.cpp", "h_c20_tecmp", defs={"NB": n, "TMT": mt, "TDT": dt, "TDLC": dlc}, unwind=220, variant="o0",
                        unwindset={("TECMP7Decoder", None): 5, ("_M_realloc_insert", None): 5, ("_M_release", None): 3, ("_Sp_counted", None): 3},
                        tier=tier, in_max=n + 8, mem_gb=6,
                        sym="as above, on unoptimised IR (uninitialised locals stay uninitialised stack objects); " + sym2, outside="frames > 64 bytes"))
    # the same harnesses on unoptimised IR (variant "o0": clang -O0 + mem2reg only). At -O1 clang may give a partially
    # initialised local a convenient constant value (LLVM undef folding), hiding the uninitialised read from the encoding.
    import copy
    o0 = []
    for j in jobs:
        if j.variant == "o0":
            continue
        pick = (j.entry == "h_c20_encode" and j.defs.get("K") == 1) or (j.entry == "h_c20_decode" and j.defs.get("NB") == 32 and j.defs.get("DPT") == 0xFE) or \
               (j.entry == "h_c20_tecmp")
        if pick:
            c = copy.copy(j)
            c.variant = "o0"
            c.tier = j.tier if (j.entry, j.defs.get("NB"), j.defs.get("L0"), j.defs.get("MINB")) in (("h_c20_encode", None, 8, 64), ("h_c20_decode", 32, None, None), ("h_c20_tecmp", 40, None, None), ("h_c20_tecmp", 36, None, None), ("h_c20_tecmp", 52, None, None)) else "thorough"
            c.timeout = 900 if c.tier == "thorough" else None
            o0.append(c)
    jobs += o0
    # TECMP capture-module status shorter than its fixed block: must not reach the converter, which builds strings from the block
    jobs += [j for j in tecmp_jobs() if j.entry == "h_tecmp" and j.defs["MT"] == 1 and (j.defs["N"] < 64 or "CMVDL" in j.defs)]
    for (a, b, t) in ((8, 5, 3), (1, 0, 0), (16, 16, 8)):
        jobs.append(Job("c20.cpp", "h_c20_reassembly", defs={"SL0": a, "SL1": b, "STR": t}, unwind=300, unwindset={("Decoder6decode", None): 6, ("_M_realloc_insert", None): 4, ("_Hashtable", None): 4, ("_M_release", None): 3},
                        tier="quick" if (a, b) == (8, 5) else "thorough", in_max=2 * (24 + a + b + t) + 8, mem_gb=8, variant="mapmodel",
                        sym="all bytes of both segments incl. trailing bytes, start sequence counter; " + sym2, outside="more than two segments"))
    for bd, tier in ((9, "quick"), (13, "quick"), (5, "thorough"), (33, "thorough"), (64, "thorough")):
        jobs.append(Job("c20.cpp", "h_c20_build", defs={"BS": 1, "BV": 0, "BD": bd}, unwind=160, tier=tier, in_max=64 + bd, mem_gb=4,
                        sym="data bytes; " + sym2, outside="data blocks > 64 bytes"))
    for (bs, bv) in ((3, 1), (0, 0), (2, 2), (5, 3)):
        jobs.append(Job("c20.cpp", "h_c20_build", defs={"BS": bs, "BV": bv}, unwind=120, tier="quick" if (bs, bv) in ((3, 1), (2, 2)) else "thorough", in_max=64, mem_gb=3,
                        sym="string characters, stream ids, vendor bytes, uptime; " + sym2, outside="strings > 5 characters"))
        if (bs, bv) in ((3, 1), (2, 2)):
            jobs.append(Job("c20.cpp", "h_c20_build", defs={"BS": bs, "BV": bv}, unwind=120, tier="quick" if bs == 3 else "thorough", in_max=64, mem_gb=4, variant="o0", timeout=None if bs == 3 else 900,
                            sym="as above on unoptimised IR; " + sym2, outside="strings > 5 characters"))
    return jobs


PROPS["C20"] = {"jobs": c20_jobs, "assumptions": COMMON_ASSUME + [
    "definedness is decided as non-interference: two runs on the same symbolic inputs with independent arbitrary values for every fresh allocation / uninitialised local / undef must give bit-identical outputs; "
    "an uninitialised read that cannot change any output is not flagged",
    "the byte-exact model comparisons of C07 (every frame byte incl. padding) and C04/C05 (every delivered byte) also exclude uninitialised output bytes; this check adds builders, TECMP conversion and reassembly",
    "a subset of the queries runs on unoptimised IR (clang -O0 + mem2reg, variant o0): at -O1 clang may replace the undefined part of a partially initialised local by a constant, which would hide the read from the encoding",
    "a counterexample the ASan replay does not reproduce (an uninitialised stack slot holds the same stale value in both runs of one process) is confirmed by valgrind memcheck on an uninstrumented build of the same harness",
    "builder inputs (strings, data blocks) live in exact-size heap objects allocated per run: a read behind them is reported by the pointer checks and confirmed by ASan",
    "shapes as in the underlying harnesses (concrete sizes)"],
    "level": "bounded symbolic model checking of a two-run self-composition (non-interference of uninitialised memory with outputs)"}


# ------------------------------------------------------------------ C19 separate instances (footprint argument)
def c19_jobs():
    """every store / memcpy / memset of every library function is instrumented with 'does not write into an object with
    static storage duration of the library'; the instrumented module runs through representative harnesses of the other
    properties (their own assertions are foreign to C19 and skipped)."""
    import copy
    picks = []
    picks += [j for j in enc_jobs(["h_enc_model"], [enc_shape([8]), enc_shape([8, 41, 8]), enc_shape([8, 8], [1, 3], minb=64)], [enc_shape([17], maxb=40), enc_shape([], api=1)])]
    picks += [j for j in enc_twice_jobs() if j.tier == "quick"][:2]
    picks += [j for j in c02_jobs() if j.defs.get("N") in (32, 48) and j.defs.get("VER") == 1 and "FMT" not in j.defs]
    picks += [j for j in c02_jobs() if j.defs.get("FMT") == 3 and j.defs.get("N") in (62, 65)]
    picks += [j for j in tecmp_jobs() if j.tier == "quick" and j.entry == "h_tecmp" and (j.defs["MT"], j.defs["N"]) in ((2, 52), (3, 41), (3, 38), (0x55, 40), (2, 64), (1, 64))]
    q5, _ = c05_shapes(5)
    picks += [j for j in seq_jobs(q5[:4], []) if j.entry == "h_seq" and j.variant == "mapmodel"]
    picks += [j for j in seq_jobs(q5[:1], []) if j.variant == "real" and j.entry == "h_seq"]
    picks += [j for j in c16_jobs() if j.tier == "quick"][:6]
    picks += [j for j in c13_jobs() if j.tier == "quick" and j.defs.get("CLS") in (1, 6, 7)][:6]
    picks += [j for j in c14_jobs() if j.tier == "quick"][:4]
    picks += [j for j in c01_jobs() if j.tier == "quick"][:3]
    jobs = []
    for j in picks:
        k = copy.copy(j)
        k.ll2c_opts = list(j.ll2c_opts) + ["--static-writes"]
        k.sym = j.sym + " | instrumented: every library store/memcpy/memset asserts that its target is not a static-storage object of the library"
        jobs.append(k)
    return jobs


PROPS["C19"] = {"jobs": c19_jobs, "technique": "bounded symbolic execution (CBMC) of a write-footprint instrumentation of the real code: no API call writes to static storage; schedules lifted by the data-race-freedom argument; solver hits replayed under ThreadSanitizer",
                "assumptions": COMMON_ASSUME + [
    "schedule quantifier by a footprint argument, not by encoding interleavings (CBMC 6.11 rejects pointer-dereferencing threads: 'pointer handling for concurrency is unsound'): threads that drive distinct instances can only interfere "
    "through an object with static storage duration written by at least one of them; instances, their heap and the callers' buffers are disjoint by premise; malloc is the environment's and thread-safe",
    "the set of static-storage objects and the set of library functions are recomputed from /repo's IR on every run (ll2c --list-statics); thread_local objects are per-thread and exempt; atomic stores are exempt",
    "a solver hit is reported as a violation only if a 4-thread run of separate instances under ThreadSanitizer reports a data race or a result digest differs from the single-threaded digest (rt/c19_native.cpp)",
    "writable static objects that no query shows to be written (code replaced by environment models or behind bodyless external calls) cannot be decided by the solver: their presence in the IR alone triggers the same native confirmation; the set is empty on the pinned tree",
    "shapes of the reused harnesses bound the explored executions"],
    "level": "bounded symbolic model checking of 'no library write targets static storage' over the API harnesses; the lift to all schedules is the standard data-race-freedom argument (trusted, DESIGN.md)"}
