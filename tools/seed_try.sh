#!/bin/sh
# tools/seed_try.sh <patch.diff> <property> [tier] [--only REGEX]: run one check against a scratch worktree of /repo with the patch applied
patch=$(readlink -f "$1"); prop=$2; tier=${3:-quick}; shift 3 2>/dev/null
wt=/tmp/wt/try_$$
git -C /repo worktree add -q --detach $wt HEAD || exit 3
git -C $wt apply "$patch" || { git -C /repo worktree remove --force $wt; exit 3; }
cd "$(dirname "$0")/.."
VP_REPO=$wt VP_REPLAYS=/tmp/wt/rp_try VP_EVIDENCE_DIR=/tmp/wt/ev_try tools/check $prop $tier "$@" 2>&1 | grep -v "^OK" | sed "s#$wt#/repo#g" | cut -c1-420 | tail -${TAILN:-6}
rc=$?
git -C /repo worktree remove --force $wt
rm -rf /tmp/wt/rp_try /tmp/wt/ev_try
