#!/bin/sh
# setup: build the IR->C translator (offline; llvm-14 dev files are in the image)
set -e
cd "$(dirname "$0")/ll2c"
g++ -O1 -o ll2c ll2c.cpp $(llvm-config-14 --cxxflags) -fexceptions $(llvm-config-14 --ldflags) -lLLVM-14
echo "ll2c built"
