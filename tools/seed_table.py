#!/usr/bin/env python3
"""Appends/refreshes the 'seeded changes' table at the end of DESIGN.md from seeded/*/meta.json."""
import glob, json, os
V = os.path.dirname(os.path.dirname(os.path.abspath(__file__)))
rows = []
for f in sorted(glob.glob(os.path.join(V, "seeded", "*", "meta.json"))):
    m = json.load(open(f))
    what = m.get("needs_to_manifest", "").strip().splitlines()
    what = (what[0] if what else "")[:110]
    ran = ", ".join("%s:%s" % (c, "VIOLATION" if (v["exit"] == 1 and v["violations"]) else ("inconclusive" if v["exit"] == 2 else "pass")) for c, v in m.get("checks", {}).items())
    fp = m.get("first_pass")
    first = ""
    if fp:
        first = ", ".join("%s:%s" % (c, "VIOLATION" if (v["exit"] == 1 and v["violations"]) else ("inconclusive" if v["exit"] == 2 else "pass")) for c, v in (fp.get("checks") or {}).items())
    rows.append("| %s | %s | %s | %s | %s | %s |" % (m["id"], m["breaks_property"], "yes" if m.get("confirmed") else "NO", ", ".join(m.get("detected_by", [])) or "— (missed)", ran, first))
marker = "\n<!-- SEED-TABLE -->\n"
p = os.path.join(V, "DESIGN.md")
s = open(p).read()
if marker in s:
    s = s[:s.index(marker)]
s += marker + "\n| seeded change | breaks | confirmed (tests pass, demo fails/passes) | caught by (quick tier) | checks run (current) | first pass, before the checks were strengthened |\n|---|---|---|---|---|---|\n" + "\n".join(rows) + "\n"
open(p, "w").write(s)
print(len(rows), "rows")
