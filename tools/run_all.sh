#!/bin/sh
# run every check's quick (or given) tier sequentially on /repo; logs under build/logs
tier=${1:-quick}
cd "$(dirname "$0")/.."
mkdir -p build/logs
for p in ${PROPS:-C01 C02 C03 C04 C05 C06 C07 C08 C09 C10 C11 C12 C13 C14 C15 C16 C17 C18 C19 C20}; do
  s=$(date +%s)
  VERIF_SEED=${VERIF_SEED:-1} tools/check $p $tier > build/logs/$p-$tier.log 2>&1
  rc=$?
  echo "$p $tier rc=$rc $(( $(date +%s) - s ))s $(grep -c '^INCONCLUSIVE' build/logs/$p-$tier.log) inconclusive $(grep -c '^VIOLATION' build/logs/$p-$tier.log) violations"
done
