#!/usr/bin/env python3
"""Regenerates /verif/MANIFEST.json from the registry (so that it is always consistent with the checks)."""
import json
import os
import subprocess
import sys

HERE = os.path.dirname(os.path.abspath(__file__))
sys.path.insert(0, HERE)
from vplib import registry  # noqa: E402

VERIF = os.path.dirname(HERE)
props = [json.loads(l) for l in open(os.path.join(VERIF, "properties.jsonl"))]
hooks = []
try:
    out = subprocess.run(["git", "-C", "/repo", "log", "--format=%H %s"], stdout=subprocess.PIPE, text=True).stdout
    hooks = [l.split()[0] for l in out.splitlines() if " verif-hook:" in l]
except Exception:
    pass
checks, na = [], []
for p in props:
    pid = p["id"]
    if pid in registry.PROPS:
        r = registry.PROPS[pid]
        checks.append({
            "property_id": pid,
            "quick_cmd": "tools/check %s quick" % pid,
            "thorough_cmd": "tools/check %s thorough" % pid,
            "evidence_file": "evidence/%s.json" % pid,
            "replay_cmd_template": "tools/check --replay {path}",
            "engine": "ll2c+cbmc",
            "level_claimed": {"category": "model_checking", "text": r["level"], "design_ref": r.get("design_ref", "DESIGN.md section 3 (%s)" % pid)},
            "level_note": "; ".join(r["assumptions"]),
            "technique": r.get("technique", "bounded symbolic execution of the real code (clang IR -> ll2c -> CBMC/SAT), unwinding assertions on, counterexamples replayed natively"),
        })
    else:
        na.append({"property_id": pid, "reason": registry.NOT_APPLICABLE.get(pid, "check not built yet (work in progress)")})
m = {
    "version": 1,
    "setup_cmd": "sh tools/build.sh",
    "hooks": {
        "guard": "ASAM_CMP_VERIF",
        "enable": "checks compile /repo/src/*.cpp themselves with -DASAM_CMP_VERIF (clang++-14 to LLVM IR for CBMC, g++ with sanitizers for replay); the repository's own CMake build never defines it",
        "baseline_off_cmd": "cmake --build /repo/_build && ctest --test-dir /repo/_build -j8 --timeout 900",
        "source_commits": hooks,
        "add_only": True,
    },
    "engines": [{"name": "ll2c+cbmc", "path": "tools/check", "serves_properties": [c["property_id"] for c in checks],
                 "kind_free_text": "clang-14 LLVM IR of the real library -> own IR-to-C translator (tools/ll2c) -> CBMC 6.11 bounded model checking with unwinding assertions; native ASan/UBSan replay of counterexamples"}],
    "checks": checks,
    "not_applicable": na,
    "notes": "See DESIGN.md. Every check recompiles /repo's working tree; shapes (sizes, counts) are enumerated concretely, contents are symbolic.",
}
json.dump(m, open(os.path.join(VERIF, "MANIFEST.json"), "w"), indent=1)
print("MANIFEST.json: %d checks, %d not_applicable" % (len(checks), len(na)))
