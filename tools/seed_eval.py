#!/usr/bin/env python3
"""tools/seed_eval.py <seed-id> <property> <patch.diff> <demo.cpp> <meta.txt> [--checks C07,C08] [--tier quick]
Confirms a seeded change (compiles, passes the 293 tests, demo fails with / passes without it) in a scratch worktree,
then applies it to /repo, runs the named checks and restores /repo. Writes /verif/seeded/<seed-id>/."""
import json, os, shutil, subprocess, sys, time

VERIF = os.path.dirname(os.path.dirname(os.path.abspath(__file__)))
DEMO_FLAGS = os.environ.get("SEED_DEMO_FLAGS", "")   # e.g. -fsanitize=address,undefined when the demonstration needs a sanitizer to fail


def sh(cmd, **kw):
    return subprocess.run(cmd, shell=True, stdout=subprocess.PIPE, stderr=subprocess.STDOUT, text=True, **kw)


def main():
    a = sys.argv[1:]
    sid, prop, patch, demo, meta = a[:5]
    checks = [prop]
    tier = "quick"
    if "--checks" in a:
        checks = a[a.index("--checks") + 1].split(",")
    if "--tier" in a:
        tier = a[a.index("--tier") + 1]
    out = os.path.join(VERIF, "seeded", sid)
    os.makedirs(out, exist_ok=True)
    shutil.copy(patch, os.path.join(out, "patch.diff"))
    shutil.copy(demo, os.path.join(out, "demo.cpp"))
    info = {"id": sid, "breaks_property": prop, "demo_extra_flags": DEMO_FLAGS, "needs_to_manifest": open(meta).read().strip(), "ran": {}}
    # ---- 1. confirm in a scratch worktree
    wt = "/tmp/wt/verify_" + sid
    sh("git -C /repo worktree remove --force %s" % wt)
    r = sh("git -C /repo worktree add -q --detach %s HEAD" % wt)
    try:
        r = sh("g++ -std=c++17 -O1 -pthread %s -I%s/include %s %s/src/*.cpp -o %s/demo_clean && %s/demo_clean" % (DEMO_FLAGS, wt, demo, wt, wt, wt), timeout=600)
        info["ran"]["demo_on_clean_tree_exit"] = r.returncode
        r = sh("git -C %s apply %s" % (wt, os.path.abspath(patch)))
        if r.returncode != 0:
            info["ran"]["apply"] = r.stdout[-500:]
            raise SystemExit("patch does not apply: " + r.stdout[-300:])
        r = sh("cd %s && cmake -G Ninja -B _b . >/dev/null && cmake --build _b 2>&1 | tail -2 && ./_b/bin/test_asam_cmp | tail -1" % wt, timeout=1200)
        info["ran"]["tests_with_change"] = r.stdout.strip().splitlines()[-1] if r.stdout.strip() else "?"
        r = sh("g++ -std=c++17 -O1 -pthread %s -I%s/include %s %s/src/*.cpp -o %s/demo_mut && %s/demo_mut" % (DEMO_FLAGS, wt, demo, wt, wt, wt), timeout=600)
        info["ran"]["demo_with_change_exit"] = r.returncode
        info["ran"]["demo_with_change_output"] = r.stdout[-600:]
    except BaseException:
        sh("git -C /repo worktree remove --force %s" % wt)
        raise
    ok = info["ran"].get("demo_on_clean_tree_exit") == 0 and info["ran"].get("demo_with_change_exit") not in (0, None) and "PASSED  ] 293" in info["ran"].get("tests_with_change", "")
    info["confirmed"] = ok
    # ---- 2. run our checks against the changed tree (the scratch worktree stands in for /repo via VP_REPO, so that
    #         /repo itself stays untouched and several evaluations can run side by side)
    res = {}
    try:
        if ok:
            sh("rm -rf %s/_b %s/demo_clean %s/demo_mut" % (wt, wt, wt))
            env = dict(os.environ, VP_REPO=wt, VP_REPLAYS="/tmp/wt/replays_" + sid, VP_EVIDENCE_DIR="/tmp/wt/evidence_" + sid)
            for c in checks:
                t0 = time.time()
                r = sh("cd %s && tools/check %s %s" % (VERIF, c, tier), timeout=7200, env=env)
                viol = [l for l in r.stdout.splitlines() if l.startswith("VIOLATION")]
                detail = [l.strip() for l in r.stdout.splitlines() if l.startswith("  ")][:3]
                inc = [l for l in r.stdout.splitlines() if l.startswith("INCONCLUSIVE")]
                res[c] = {"tier": tier, "exit": r.returncode, "violations": len(viol), "inconclusive": len(inc), "first": (detail or inc or [""])[0][:400].replace(wt, "/repo"), "wall_s": round(time.time() - t0, 1)}
    finally:
        sh("git -C /repo worktree remove --force %s" % wt)
        sh("rm -rf /tmp/wt/replays_%s /tmp/wt/evidence_%s" % (sid, sid))
    info["checks"] = res
    # keep the result of an earlier evaluation (before the checks were strengthened) for the record
    prev_path = os.path.join(out, "meta.json")
    if os.path.exists(prev_path):
        try:
            prev = json.load(open(prev_path))
            info["first_pass"] = prev.get("first_pass") or {"checks": prev.get("checks"), "detected_by": prev.get("detected_by")}
        except Exception:
            pass
    info["detected_by"] = sorted(c for c, v in res.items() if v["exit"] == 1 and v["violations"] > 0)
    json.dump(info, open(os.path.join(out, "meta.json"), "w"), indent=1)
    print(json.dumps({k: info[k] for k in ("id", "confirmed", "detected_by")}), {c: (v["exit"], v["violations"], v["inconclusive"], v["wall_s"]) for c, v in res.items()})
    for c, v in res.items():
        print("   ", c, v["first"][:300])


if __name__ == "__main__":
    main()
