// C16: the status tracker equals a per-device, per-interface latest-message map.
// The operation sequence is a concrete shape (OPk = kind*16 + device*4 + interface); ids and identity tags
// (timestamps) are concrete representatives, packet contents are symbolic. After every operation the real
// Status object is compared with a ghost map kept by the harness.
#include <asam_cmp/capture_module_payload.h>
#include <asam_cmp/interface_payload.h>
#include <asam_cmp/status.h>
#include <new>
#include "verif.h"
using namespace ASAM::CMP;

// the operation sequence is bound after translation (rt/vp_cdefs.h): VP_OPS / VP_NOPS are constants of the goto binary
extern "C" unsigned vp_op(unsigned k);
extern "C" unsigned vp_nops(unsigned seq);
extern "C" unsigned vp_nseq(void);
#define MAXSEQ 16
enum { K_CM = 0, K_IF = 1, K_DATA = 2, K_RMDEV = 3, K_RMIF = 4, K_CLEAR = 5, K_VENDORSTAT = 6 };
#define ND 3
#ifndef IDSTEP
#define IDSTEP 0
#endif
#define NI 3
// representatives that collide in their low 8 / low 16 bits (a lookup that compares truncated ids confuses them); the id
// comparison itself is decided for all id values by h_status_ids
static const uint16_t DEVID[ND] = {0x010A, 0xFF0A, 0x000A};
static const uint32_t IFID[NI] = {0x00010007u, 0xFFFF0107u, 0x00000007u};

struct Ghost
{
    bool dev[ND];
    uint64_t devTag[ND];
    bool itf[ND][NI];
    uint64_t itfTag[ND][NI];
};
static Ghost g;

static Packet* mkPacket(int kind, int d, int i, uint64_t tag)
{
    Packet* p = new Packet;
    if (kind == K_CM)
    {
        CaptureModulePayload pl;
        pl.setUptime(vp_u64());
        p->setPayload(pl);
    }
    else if (kind == K_IF)
    {
        InterfacePayload pl;
        pl.setInterfaceId(IFID[i]);
        pl.setMsgTotalRx(vp_u32());
        p->setPayload(pl);
    }
    else if (kind == K_VENDORSTAT)
    {
        uint8_t b[4];
        vp_bytes(b, 4);
        p->setPayload(Payload(PayloadType(PayloadType::vendorStatMsg), b, 4));
    }
    else
    {
        // data message; the interface index selects the payload type byte: generic 0xFE, CAN (1) or CAN-FD (2), whose type
        // bytes coincide with those of the capture-module (0x0301) / interface (0x0302) status messages
        static const uint8_t rawType[3] = {0xFE, 1, 2};
        uint8_t b[40];
        vp_bytes(b, 40);
        p->setPayload(Payload(PayloadType(CmpHeader::MessageType::data, rawType[i]), b, 40));
    }
    p->setDeviceId(DEVID[d]);
    p->setTimestamp(tag);
    p->setStreamId(static_cast<uint8_t>(tag));
    return p;
}

static void compare(const Status& s)
{
    unsigned nd = 0;
    for (int d = 0; d < ND; ++d)
        nd += g.dev[d] ? 1 : 0;
    vp_assert(s.getDeviceStatusCount() == nd, "C16: exactly one entry per device with a capture-module status since it was last removed/cleared");
    for (int d = 0; d < ND; ++d)
    {
        const size_t idx = s.getIndexByDeviceId(DEVID[d]);
        if (!g.dev[d])
        {
            vp_assert(idx == s.getDeviceStatusCount(), "C16: lookup of an absent device id returns the element count");
            continue;
        }
        vp_assert(idx < s.getDeviceStatusCount(), "C16: lookup of a present device id returns the index of its entry");
        if (idx >= s.getDeviceStatusCount())
            continue;
        const DeviceStatus& ds = s.getDeviceStatus(idx);
        vp_assert(ds.getPacket().getDeviceId() == DEVID[d], "C16: the entry found holds a packet of that device");
        vp_assert(ds.getPacket().getTimestamp() == g.devTag[d], "C16: the device entry holds the device's latest capture-module status packet");
        unsigned ni = 0;
        for (int i = 0; i < NI; ++i)
            ni += g.itf[d][i] ? 1 : 0;
        vp_assert(ds.getInterfaceStatusCount() == ni, "C16: exactly one entry per interface id seen in the device's interface status messages");
        for (int i = 0; i < NI; ++i)
        {
            const size_t j = ds.getIndexByInterfaceId(IFID[i]);
            if (!g.itf[d][i])
            {
                vp_assert(j == ds.getInterfaceStatusCount(), "C16: lookup of an absent interface id returns the element count");
                continue;
            }
            vp_assert(j < ds.getInterfaceStatusCount(), "C16: lookup of a present interface id returns the index of its entry");
            if (j >= ds.getInterfaceStatusCount())
                continue;
            vp_assert(ds.getInterfaceStatus(j).getInterfaceId() == IFID[i], "C16: the interface entry reports its interface id");
            vp_assert(ds.getInterfaceStatus(j).getPacket().getTimestamp() == g.itfTag[d][i], "C16: the interface entry holds the latest interface status packet");
            vp_assert(ds.getInterfaceStatus(j).getPacket().getDeviceId() == DEVID[d], "C16: the interface entry holds a packet of its device");
        }
    }
}

static void runSequence(unsigned seq)
{
    Status* s = new Status;
    for (int d = 0; d < ND; ++d)
    {
        g.dev[d] = false;
        for (int i = 0; i < NI; ++i)
            g.itf[d][i] = false;
    }
    compare(*s);
    const int nops = static_cast<int>(vp_nops(seq));
    for (int k = 0; k < 8; ++k)
    {
        if (k >= nops)
            break;
        const int opk = static_cast<int>(vp_op(seq * 8 + k));
        const int kind = opk >> 4, d = (opk >> 2) & 3, i = opk & 3;
        // identity tags are concrete and distinct: Packet::operator= used to branch on operator==, and a symbolic tag makes
        // every stored-packet comparison a symbolic branch (measured: 13.6 M variables for six operations)
        const uint64_t tag = 0x1000 + k;
        if (kind == K_CM || kind == K_IF || kind == K_DATA || kind == K_VENDORSTAT)
        {
            Packet* p = mkPacket(kind, d, i, tag);
            s->update(*p);
            if (kind == K_CM)
            {
                g.dev[d] = true;
                g.devTag[d] = tag;
            }
            else if (kind == K_IF && g.dev[d])
            {
                g.itf[d][i] = true;
                g.itfTag[d][i] = tag;
            }
        }
        else if (kind == K_RMDEV)
        {
            s->removeDeviceById(DEVID[d]);
            g.dev[d] = false;
            for (int x = 0; x < NI; ++x)
                g.itf[d][x] = false;
        }
        else if (kind == K_RMIF)
        {
            const size_t idx = s->getIndexByDeviceId(DEVID[d]);
            if (idx < s->getDeviceStatusCount())
                s->getDeviceStatus(idx).removeInterfaceById(IFID[i]);
            g.itf[d][i] = false;
        }
        else if (kind == K_CLEAR)
        {
            s->clear();
            for (int y = 0; y < ND; ++y)
            {
                g.dev[y] = false;
                for (int x = 0; x < NI; ++x)
                    g.itf[y][x] = false;
            }
        }
        compare(*s);
    }
}

// one query runs up to MAXSEQ operation sequences (each on a fresh Status object)
VP_HARNESS(h_status)
{
    const unsigned n = vp_nseq();
    for (unsigned seq = 0; seq < MAXSEQ; ++seq)
    {
        if (seq >= n)
            break;
        runSequence(seq);
    }
}


// Lookups and updates compare whole ids - for ALL pairs of distinct device ids (16 bit) and of distinct interface ids (32 bit):
// with one entry present, the present id is found at index 0, any other id is reported absent (= count), removing another id
// changes nothing, and an update with another id adds a second entry instead of overwriting the first.
static Packet* cmPacket(uint16_t dev, uint64_t tag)
{
    Packet* p = new Packet;
    CaptureModulePayload pl;
    p->setPayload(pl);
    p->setDeviceId(dev);
    p->setTimestamp(tag);
    return p;
}
static Packet* ifPacket(uint16_t dev, uint32_t itf, uint64_t tag)
{
    Packet* p = new Packet;
    InterfacePayload pl;
    pl.setInterfaceId(itf);
    p->setPayload(pl);
    p->setDeviceId(dev);
    p->setTimestamp(tag);
    return p;
}
VP_HARNESS(h_status_devids)
{
    const uint16_t d1 = vp_u16(), d2 = vp_u16();
    vp_assume(d1 != d2);
    Status* s = new Status;
    s->update(*cmPacket(d1, 0x100));
    vp_assert(s->getDeviceStatusCount() == 1 && s->getIndexByDeviceId(d1) == 0, "C16: the device id is found at its entry");
    vp_assert(s->getIndexByDeviceId(d2) == 1, "C16: a device id never seen is reported absent (ids compared in full)");
#if IDSTEP == 1
    s->removeDeviceById(d2);
    vp_assert(s->getDeviceStatusCount() == 1, "C16: removing a device id never seen changes nothing");
#elif IDSTEP == 2
    s->update(*ifPacket(d2, 5, 0x101));
    vp_assert(s->getDeviceStatusCount() == 1 && s->getDeviceStatus(0).getInterfaceStatusCount() == 0, "C16: an interface status of another device changes nothing");
#elif IDSTEP == 3
    s->update(*cmPacket(d2, 0x102));
    vp_assert(s->getDeviceStatusCount() == 2, "C16: two distinct device ids give two device entries");
#endif
}
VP_HARNESS(h_status_ifids)
{
    const uint32_t i1 = vp_u32(), i2 = vp_u32();
    vp_assume(i1 != i2);
    Status* s = new Status;
    s->update(*cmPacket(0x010A, 0x100));
    s->update(*ifPacket(0x010A, i1, 0x101));
    DeviceStatus* ds = &s->getDeviceStatus(0);
    vp_assert(ds->getInterfaceStatusCount() == 1 && ds->getIndexByInterfaceId(i1) == 0, "C16: the interface id is found at its entry");
    vp_assert(ds->getInterfaceStatus(0).getInterfaceId() == i1, "C16: the entry reports its interface id");
    vp_assert(ds->getIndexByInterfaceId(i2) == 1, "C16: an interface id never seen is reported absent (ids compared in full)");
#if IDSTEP == 1
    ds->removeInterfaceById(i2);
    vp_assert(ds->getInterfaceStatusCount() == 1, "C16: removing an interface id never seen changes nothing");
#elif IDSTEP == 3
    ds->update(*ifPacket(0x010A, i2, 0x102));
    vp_assert(ds->getInterfaceStatusCount() == 2, "C16: two distinct interface ids give two interface entries");
#endif
}
