// C03: a payload accepted by the class's validity check exposes only in-bounds data.
// The payload vector is allocated with exactly n bytes, so CBMC's pointer/bounds checks on every dereference
// inside the real accessors are the "reads only inside" oracle; the reported (pointer,length) views are
// compared with [raw, raw+n) explicitly.
#include <asam_cmp/analog_payload.h>
#include <asam_cmp/can_fd_payload.h>
#include <asam_cmp/can_payload.h>
#include <asam_cmp/capture_module_payload.h>
#include <asam_cmp/ethernet_payload.h>
#include <asam_cmp/interface_payload.h>
#include <asam_cmp/lin_payload.h>
#include <asam_cmp/packet.h>
#include <new>
#include "verif.h"
using namespace ASAM::CMP;

#ifndef CLS
#define CLS 1  // 1 CAN, 2 CAN-FD, 3 LIN, 4 Ethernet, 5 analog, 6 capture-module status, 7 interface status
#endif
#ifndef NB
#define NB 24  // buffer size (exact size of the payload's allocation)
#endif

static uint64_t g_sink;

static void viewInside(const Payload& p, const void* ptr, size_t len, size_t n)
{
    if (ptr == nullptr)
        return;
    const uint8_t* raw = p.getRawPayload();
    const size_t off = static_cast<size_t>(static_cast<const uint8_t*>(ptr) - raw);
    vp_assert(off <= n && len <= n - off, "C03: reported (pointer,length) view lies inside the payload's own bytes");
    // touch first and last byte of the view: an out-of-bounds view is also caught by the pointer check / ASan
    if (len > 0 && off <= n && len <= n - off)
        g_sink += static_cast<const uint8_t*>(ptr)[0] + static_cast<const uint8_t*>(ptr)[len - 1];
}

static void accessCan(const CanPayloadBase& p, size_t n)
{
    g_sink += p.getFlags() + p.getId() + p.getRsvd() + p.getIde() + p.getCrcSupport() + p.getErrorPosition() + p.getDlc();
    viewInside(p, p.getData(), p.getDataLength(), n);
}
static void accessLin(const LinPayload& p, size_t n)
{
    g_sink += p.getFlags() + p.getLinId() + p.getParityBits() + p.getChecksum();
    viewInside(p, p.getData(), p.getDataLength(), n);
}
static void accessEth(const EthernetPayload& p, size_t n)
{
    g_sink += p.getFlags();
    viewInside(p, p.getData(), p.getDataLength(), n);
}
static void accessAnalog(const AnalogPayload& p, size_t n)
{
    g_sink += p.getFlags() + static_cast<unsigned>(p.getUnit());
    const size_t ss = p.getSampleDt() == AnalogPayload::SampleDt::aInt16 ? 2 : 4;
    const size_t cnt = p.getSamplesCount();
    vp_assert(cnt <= n / ss, "C03: sample count fits the payload");
    viewInside(p, p.getData(), cnt <= n ? cnt * ss : n + 1, n);
}
static void accessCm(const CaptureModulePayload& p, size_t n)
{
    g_sink += p.getUptime() + p.getGmIdentity() + p.getGmClockQuality() + p.getCurrentUtcOffset() + p.getTimeSource() + p.getDomainNumber() + p.getGptpFlags();
    std::string_view s = p.getDeviceDescription();
    viewInside(p, s.data(), s.size(), n);
    s = p.getSerialNumber();
    viewInside(p, s.data(), s.size(), n);
    s = p.getHardwareVersion();
    viewInside(p, s.data(), s.size(), n);
    s = p.getSoftwareVersion();
    viewInside(p, s.data(), s.size(), n);
    viewInside(p, p.getVendorData(), p.getVendorDataLength(), n);
    s = p.getVendorDataStringView();
    viewInside(p, s.data(), s.size(), n);
}
static void accessIf(const InterfacePayload& p, size_t n)
{
    g_sink += p.getInterfaceId() + p.getMsgTotalRx() + p.getMsgTotalTx() + p.getMsgDroppedRx() + p.getMsgDroppedTx() + p.getErrorsTotalRx() +
              p.getErrorsTotalTx() + p.getInterfaceType() + static_cast<unsigned>(p.getInterfaceStatus()) + p.getFeatureSupportBitmask();
    viewInside(p, p.getStreamIds(), p.getStreamIdsCount(), n);
    viewInside(p, p.getVendorData(), p.getVendorDataLength(), n);
}

// ---- family 1: T::isValidPayload(buf,n) => T(buf,n) and all accessors
VP_HARNESS(h_valid_class)
{
    uint8_t* buf = static_cast<uint8_t*>(operator new(NB ? NB : 1));
    vp_bytes(buf, NB);
#if CLS == 1
    if (!CanPayload::isValidPayload(buf, NB))
    {
        vp_reach("OPT:validator rejects some buffer of this size");
        return;
    }
    vp_reach("OPT:validator accepts some buffer of this size");
    accessCan(*new CanPayload(buf, NB), NB);
#elif CLS == 2
    if (!CanFdPayload::isValidPayload(buf, NB))
    {
        vp_reach("OPT:validator rejects some buffer of this size");
        return;
    }
    vp_reach("OPT:validator accepts some buffer of this size");
    accessCan(*new CanFdPayload(buf, NB), NB);
#elif CLS == 3
    if (!LinPayload::isValidPayload(buf, NB))
    {
        vp_reach("OPT:validator rejects some buffer of this size");
        return;
    }
    vp_reach("OPT:validator accepts some buffer of this size");
    accessLin(*new LinPayload(buf, NB), NB);
#elif CLS == 4
    if (!EthernetPayload::isValidPayload(buf, NB))
    {
        vp_reach("OPT:validator rejects some buffer of this size");
        return;
    }
    vp_reach("OPT:validator accepts some buffer of this size");
    accessEth(*new EthernetPayload(buf, NB), NB);
#elif CLS == 5
    if (!AnalogPayload::isValidPayload(buf, NB))
    {
        vp_reach("OPT:validator rejects some buffer of this size");
        return;
    }
    vp_reach("OPT:validator accepts some buffer of this size");
    accessAnalog(*new AnalogPayload(buf, NB), NB);
#elif CLS == 6
    if (!CaptureModulePayload::isValidPayload(buf, NB))
    {
        vp_reach("OPT:validator rejects some buffer of this size");
        return;
    }
    vp_reach("OPT:validator accepts some buffer of this size");
    accessCm(*new CaptureModulePayload(buf, NB), NB);
#elif CLS == 7
    if (!InterfacePayload::isValidPayload(buf, NB))
    {
        vp_reach("OPT:validator rejects some buffer of this size");
        return;
    }
    vp_reach("OPT:validator accepts some buffer of this size");
    accessIf(*new InterfacePayload(buf, NB), NB);
#endif
}

// ---- family 1b: buffers the validator rejects exist too (the check is not vacuous), and for sizes below the
//      header size the validator must reject
VP_HARNESS(h_reject_small)
{
    uint8_t* buf = static_cast<uint8_t*>(operator new(NB ? NB : 1));
    vp_bytes(buf, NB);
    bool ok = false;
    size_t hdr = 0;
#if CLS == 1
    ok = CanPayload::isValidPayload(buf, NB); hdr = 16;
#elif CLS == 2
    ok = CanFdPayload::isValidPayload(buf, NB); hdr = 16;
#elif CLS == 3
    ok = LinPayload::isValidPayload(buf, NB); hdr = 8;
#elif CLS == 4
    ok = EthernetPayload::isValidPayload(buf, NB); hdr = 6;
#elif CLS == 5
    ok = AnalogPayload::isValidPayload(buf, NB); hdr = 16;
#elif CLS == 6
    ok = CaptureModulePayload::isValidPayload(buf, NB); hdr = 26 + 10;
#elif CLS == 7
    ok = InterfacePayload::isValidPayload(buf, NB); hdr = 36 + 4;
#endif
    if (NB < hdr)
        vp_assert(!ok, "C03: a buffer shorter than the fixed part of the payload is rejected");
}

// ---- family 2: a message accepted by Packet::isValidPacket can be turned into a Packet without reading past
//      its end; if the packet reports valid, the typed accessors (after the down-cast users do) stay in bounds
#ifndef MT
#define MT 1
#endif
#ifndef PT
#define PT 1
#endif
#ifndef FULL
#define FULL 1
#endif
VP_HARNESS(h_valid_packet)
{
    constexpr size_t N = 16 + NB;
    uint8_t* buf = static_cast<uint8_t*>(operator new(N));
    vp_bytes(buf, N);
    buf[13] = PT;  // payload type: shape (selects the class)
#if FULL
    vp_put16(buf + 14, NB);  // declared length = whole buffer (quick shapes); symbolic in the thorough variant
#endif
    if (!Packet::isValidPacket(buf, N))
        return;
    const size_t len = vp_be16(buf + 14);
    vp_assert(len <= NB, "C03: accepted messages declare a payload length that fits the buffer");
    Packet* pk = new Packet(static_cast<CmpHeader::MessageType>(MT), buf, N);
    vp_assert(pk->getPayloadLength() == len, "C03: packet payload length equals the declared length");
    if (!pk->isValid())
        return;
    vp_reach("OPT:some accepted message yields a valid packet");
    const Payload& p = pk->getPayload();
    const uint32_t t = p.getType().getType();
    if (t == PayloadType::can || t == PayloadType::canFd)
        accessCan(static_cast<const CanPayloadBase&>(p), len);
    else if (t == PayloadType::lin)
        accessLin(static_cast<const LinPayload&>(p), len);
    else if (t == PayloadType::ethernet)
        accessEth(static_cast<const EthernetPayload&>(p), len);
    else if (t == PayloadType::analog)
        accessAnalog(static_cast<const AnalogPayload&>(p), len);
    else if (t == PayloadType::cmStatMsg)
        accessCm(static_cast<const CaptureModulePayload&>(p), len);
    else if (t == PayloadType::ifStatMsg)
        accessIf(static_cast<const InterfacePayload&>(p), len);
}

// The message-level gate alone, every header byte symbolic (declared length over all 65536 values): it accepts exactly the
// messages whose header fits, whose declared payload fits behind it, that carry no error flag and a non-zero payload type.
// GSZ >= 0: exact GSZ-byte buffer; GSZ = -1: 16-byte header object and the size argument symbolic over all values >= 16
// (the gate reads the header only - checked by the pointer checks of the same run).
#ifdef GSZ
VP_HARNESS(h_packet_gate)
{
#if GSZ >= 0
    const size_t sz = GSZ, alloc = GSZ;
#else
    const size_t sz = vp_u64(), alloc = 16;
    vp_assume(sz >= 16);
#endif
    static uint8_t hb[GSZ > 16 ? GSZ : 16];
    vp_bytes(hb, alloc);
    uint8_t* buf = static_cast<uint8_t*>(operator new(alloc ? alloc : 1));
    for (size_t i = 0; i < alloc; ++i)
        buf[i] = hb[i];
    const bool ok = Packet::isValidPacket(buf, sz);
    if (sz < 16)
    {
        vp_assert(!ok, "C03: a buffer shorter than the message header is rejected");
        return;
    }
    const uint64_t declared = vp_be16(hb + 14);
    const bool expect = declared <= sz - 16 && !(hb[12] & 0x40) && hb[13] != 0;
    vp_assert(ok == expect, "C03: the message gate accepts exactly the messages whose declared payload fits the buffer (no error flag, non-zero type)");
    // the same gate is what keeps Decoder::decode inside the frame (C02) and what makes a frame cut short yield exactly the
    // messages it still contains completely (C04)
    vp_assert(!ok || declared <= sz - 16, "C02: a message is handed to the packet constructor only if header and declared payload lie inside the remaining frame bytes");
    vp_assert(ok == expect, "C04: a message is decoded iff it is completely contained in the frame (declared length over all 16-bit values)");
}
#endif
