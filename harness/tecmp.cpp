// C15 (conversion) and C02 family iii (memory safety) for TECMP frames, through the public Decoder::decode.
// Shape: N (frame bytes, exact allocation), MT (TECMP message type byte, concrete),
// DT (data type, -1 symbolic). Everything else - header fields, inner dlc / data length, data - is symbolic.
#include <asam_cmp/can_fd_payload.h>
#include <asam_cmp/can_payload.h>
#include <asam_cmp/decoder.h>
#include <asam_cmp/interface_payload.h>
#include <asam_cmp/capture_module_payload.h>
#include <asam_cmp/lin_payload.h>
#include <asam_cmp/tecmp_capture_module_payload.h>
#include <asam_cmp/tecmp_decoder.h>
#include <new>
#include <string>
#include "verif.h"
using namespace ASAM::CMP;

#ifndef N
#define N 40
#endif
#ifndef MT
#define MT 3
#endif
#ifndef CMVER
#define CMVER 0x04030201
#endif
#ifndef CMVER2
#define CMVER2 5
#endif
#ifndef DLC
#define DLC -1
#endif
#ifndef DECL
#define DECL -1
#endif
#ifndef DT
#define DT -1
#endif
#define P (N >= 28 ? N - 28 : 0)  // bytes following the 28-byte TECMP header
#define MAXE (P / 12 + 1)
using Packets = std::vector<std::shared_ptr<Packet>>;

#if defined(VP_CBMC) && MT == 1 && N < 64
// Shapes with a capture-module status payload shorter than its 36-byte fixed part: the conversion (which needs
// std::stringstream, libstdc++.so, no IR) must not be attempted at all. It is cut and reaching it is the violation;
// natively the real converter runs and ASan sees the out-of-bounds reads.
#include <asam_cmp/tecmp_converter.h>
std::shared_ptr<ASAM::CMP::Packet> TECMP::Converter::ConvertCaptureModulePayload(TECMP::CmpHeader&, const std::shared_ptr<TECMP::Payload>&)
{
    vp_assert(false, "C02: a capture-module status shorter than its fixed part is handed to the converter (out-of-bounds field reads)");
    vp_assert(false, "C15: a capture-module status shorter than its fixed part is handed to the converter");
    vp_assert(false, "C20: a capture-module status shorter than its fixed part is handed to the converter (serial / version strings built from bytes beyond the message)");
    return nullptr;
}
#endif
#if defined(VP_CBMC) && MT == 1 && N >= 64
// std::stringstream lives in libstdc++.so (no IR). The two formatting helpers of the TECMP capture-module payload are
// replaced by equivalents that read the same header fields through the same getters (so CBMC's bounds checks still apply)
// and build "v<major>.<minor>[.<patch>]" with std::string (instantiated from the headers in the "str" variant).
std::string TECMP::CaptureModulePayload::getSwVersion() const
{
    std::string s = "v";
    s += std::to_string(getSwVersionMajor());
    s += ".";
    s += std::to_string(getSwVersionMinor());
    s += ".";
    s += std::to_string(getSwVersionPatch());
    return s;
}
std::string TECMP::CaptureModulePayload::getHwVersion() const
{
    std::string s = "v";
    s += std::to_string(getHwVersionMajor());
    s += ".";
    s += std::to_string(getHwVersionMinor());
    return s;
}
#endif

// decimal rendering, written independently
static unsigned renderDec(uint32_t v, char* out)
{
    char tmp[10];
    unsigned n = 0;
    do
    {
        tmp[n++] = static_cast<char>('0' + v % 10);
        v /= 10;
    } while (v != 0 && n < 10);
    for (unsigned i = 0; i < n; ++i)
        out[i] = tmp[n - 1 - i];
    return n;
}
static bool svIs(std::string_view v, const char* s, unsigned n)
{
    if (v.size() != n)
        return false;
    bool eq = true;
    for (unsigned i = 0; i < 16; ++i)
        if (i < n)
            eq = eq && v[i] == s[i];
    return eq;
}
static uint8_t g_f[N + 1];
static uint64_t g_sink;

VP_HARNESS(h_tecmp)
{
    uint8_t* buf = static_cast<uint8_t*>(operator new(N ? N : 1));
    vp_bytes(g_f, N);
#if N > 0
    g_f[0] = 0;  // routed to the TECMP decoder
#endif
#if N > 5
    g_f[5] = static_cast<uint8_t>(MT);  // concrete: a symbolic message type would drag the (unencodable) stringstream path in
#endif
#if N > 25
    // declared payload length: concrete (DECL = -1: all bytes that follow the header); a symbolic value makes the header
    // returned by GetHeader a merge of "valid" and "default" headers and with it every later dispatch symbolic
    vp_put16(g_f + 24, static_cast<uint16_t>(DECL >= 0 ? DECL : P));
#endif
#if N > 7
    if (DT >= 0)
    {
        g_f[6] = static_cast<uint8_t>(DT >> 8);
        g_f[7] = static_cast<uint8_t>(DT);
    }
#endif
#if defined(VDL) && MT == 2
    // the bus-status generic part's vendor-data length (payload bytes 4-5): concrete in these shapes (a stride or copy size
    // derived from it must not be a symbolic loop bound for the solver); all other shapes leave it symbolic
    if (N > 33)
        vp_put16(g_f + 32, static_cast<uint16_t>(VDL));
#endif
#if DLC >= 0 && MT == 3
    // inner length byte (CAN dlc at payload offset 4, LIN data length at offset 1): concrete shape, because it becomes the
    // size of a payload allocation (symbolic allocation sizes are what CBMC cannot digest here)
#if DT == 4
    if (N > 29)
        g_f[29] = static_cast<uint8_t>(DLC);
#else
    if (N > 32)
        g_f[32] = static_cast<uint8_t>(DLC);
#endif
#endif
#if MT == 1 && N >= 64 && defined(CMSERIAL)
    // capture-module status conversion: serial number and version bytes are concrete shape parameters (their decimal
    // renderings determine string lengths, i.e. allocation sizes); everything else stays symbolic
    vp_put32(g_f + 28 + 8, CMSERIAL);
    g_f[28 + 13] = (CMVER) & 0xFF;
    g_f[28 + 14] = ((CMVER) >> 8) & 0xFF;
    g_f[28 + 15] = ((CMVER) >> 16) & 0xFF;
    g_f[28 + 16] = ((CMVER) >> 24) & 0xFF;
    g_f[28 + 17] = (CMVER2) & 0xFF;
#ifdef CMVDL
    vp_put16(g_f + 28 + 4, CMVDL);  // the status message's vendor-data length field: concrete (may announce more than the frame holds)
#endif
#endif
    for (unsigned i = 0; i < N; ++i)
        buf[i] = g_f[i];
    Decoder* d = new Decoder;
    Packets* ps = new Packets(d->decode(buf, N));
    operator delete(buf);
    const unsigned cnt = static_cast<unsigned>(ps->size());
    vp_assert(cnt <= N / 12, "C02: at most one packet per 12 input bytes");
    // every returned packet is usable after the input is gone
    for (unsigned i = 0; i < MAXE; ++i)
        if (i < cnt)
        {
            vp_assert((*ps)[i].get() != nullptr, "C02: returned packet is non-null");
            const Packet& p = *(*ps)[i];
            g_sink += p.getDeviceId() + p.getTimestamp() + p.getInterfaceId() + p.isValid();
            const size_t len = p.getPayloadLength();
            const uint8_t* raw = p.getPayload().getRawPayload();
            if (len > 0)
                g_sink += raw[0] + raw[len - 1];
        }
#if N < 28
    vp_assert(cnt == 0, "C15: a buffer shorter than the TECMP header yields no packet");
#else
    const uint8_t* f = g_f;
    const unsigned declared = vp_be16(f + 24);
    const unsigned msgType = f[5];
    const unsigned dataType = vp_be16(f + 6);
    const uint8_t* pl = f + 28;
    // data type 0xFF00 (no such TECMP data type exists) is the library's internal "invalid header" sentinel: such a frame
    // is not a well-formed TECMP message of any kind and is left out of the conversion oracle (memory safety still checked)
    if (dataType == 0xFF00)
        return;
    if (declared == 0 || declared > P)
    {
        vp_assert(cnt == 0, "C15: a declared payload length of zero or beyond the buffer yields no packet");
        return;
    }
    if (msgType != 1 && msgType != 2 && msgType != 3)
    {
        vp_assert(cnt == 0, "C15: unsupported message kinds yield no packet");
        return;
    }
    if (msgType == 1)
    {
        // capture-module status: 36-byte payload (12 generic bytes + 24 bytes of vendor data)
        if (P < 36)
        {
            vp_assert(cnt == 0, "C15: a capture-module status shorter than its fixed part yields no packet");
            return;
        }
        vp_assert(cnt == 1, "C15: a well-formed capture-module status yields one packet");
        if (cnt != 1)
            return;
        const Packet& p = *(*ps)[0];
        vp_assert(p.getDeviceId() == vp_be16(f) && p.getTimestamp() == vp_be64(f + 16), "C15: device id and timestamp equal the TECMP header fields");
        vp_assert(p.getPayload().getType().getType() == PayloadType::cmStatMsg, "C15: capture-module status yields a capture-module status payload");
        const CaptureModulePayload& cm = static_cast<const CaptureModulePayload&>(p.getPayload());
        char dec[16];
        const unsigned n = renderDec(vp_be32(pl + 8), dec);
        vp_assert(svIs(cm.getSerialNumber(), dec, n), "C15: serial number string is the decimal rendering of the big-endian serial number");
        char ver[16];
        unsigned k = 0;
        ver[k++] = 'v';
        k += renderDec(pl[16], ver + k);
        ver[k++] = '.';
        k += renderDec(pl[17], ver + k);
        vp_assert(svIs(cm.getHardwareVersion(), ver, k), "C15: hardware version string is v<major>.<minor> of the TECMP fields");
        k = 0;
        ver[k++] = 'v';
        k += renderDec(pl[13], ver + k);
        ver[k++] = '.';
        k += renderDec(pl[14], ver + k);
        ver[k++] = '.';
        k += renderDec(pl[15], ver + k);
        vp_assert(svIs(cm.getSoftwareVersion(), ver, k), "C15: software version string is v<major>.<minor>.<patch> of the TECMP fields");
        vp_assert(cm.getDeviceDescription().size() == 0 && cm.getVendorDataLength() == 0, "C15: no description and no vendor data are invented");
        return;
    }
    if (msgType == 3)
    {
        if (dataType != 2 && dataType != 3 && dataType != 4)
        {
            vp_assert(cnt == 0, "C15: unsupported data types yield no packet");
            return;
        }
        if (dataType == 2 || dataType == 3)
        {
            if (P < 5 || pl[4] > P - 5)
            {
                vp_assert(cnt == 0, "C15: a CAN message whose dlc does not fit the buffer yields no packet");
                return;
            }
            const unsigned dlc = pl[4];
            vp_assert(cnt == 1, "C15: a well-formed CAN / CAN-FD message yields one packet");
            if (cnt != 1)
                return;
            const Packet& p = *(*ps)[0];
            vp_assert(p.getDeviceId() == vp_be16(f), "C15: device id equals the big-endian TECMP device id");
            vp_assert(p.getTimestamp() == vp_be64(f + 16), "C15: timestamp equals big-endian header bytes 16-23");
            vp_assert(p.getInterfaceId() == vp_be32(f + 12), "C15: interface id equals big-endian header bytes 12-15");
            const uint32_t t = p.getPayload().getType().getType();
            vp_assert(t == (dlc > 8 ? PayloadType::canFd : PayloadType::can), "C15: CAN for up to 8 data bytes, CAN-FD beyond");
            const CanPayloadBase& cp = static_cast<const CanPayloadBase&>(p.getPayload());
            vp_assert(cp.getId() == (vp_be32(pl) & 0x1FFFFFFF), "C15: arbitration id equals the big-endian TECMP field");
            vp_assert(cp.getDataLength() == dlc, "C15: data length equals the TECMP dlc");
            vp_assert(p.getPayloadLength() == 16 + dlc, "C15: payload is the CAN header plus the data bytes");
            const uint8_t* data = cp.getData();
            for (unsigned i = 0; i < P; ++i)
                if (i < dlc)
                    vp_assert(data[i] == pl[5 + i], "C15: CAN data bytes equal the TECMP data bytes");
            return;
        }
        // LIN
        if (P < 2 || pl[1] > P - 2)
        {
            vp_assert(cnt == 0, "C15: a LIN message whose data length does not fit the buffer yields no packet");
            return;
        }
        const unsigned dl = pl[1];
        vp_assert(cnt == 1, "C15: a well-formed LIN message yields one packet");
        if (cnt != 1)
            return;
        const Packet& p = *(*ps)[0];
        vp_assert(p.getDeviceId() == vp_be16(f) && p.getTimestamp() == vp_be64(f + 16) && p.getInterfaceId() == vp_be32(f + 12),
                  "C15: device id, timestamp and interface id equal the TECMP header fields");
        vp_assert(p.getPayload().getType().getType() == PayloadType::lin, "C15: LIN message yields a LIN payload");
        const LinPayload& lp = static_cast<const LinPayload&>(p.getPayload());
        vp_assert(lp.getLinId() == (pl[0] & 0x3F), "C15: LIN id equals the identifier bits of the TECMP pid");
        vp_assert(lp.getDataLength() == dl, "C15: LIN data length equals the TECMP field");
        if (2 + dl < P)
            vp_assert(lp.getChecksum() == pl[2 + dl], "C15: LIN checksum equals the byte after the data");
        const uint8_t* data = lp.getData();
        for (unsigned i = 0; i < P; ++i)
            if (i < dl)
                vp_assert(data[i] == pl[2 + i], "C15: LIN data bytes equal the TECMP data bytes");
        return;
    }
    if (msgType == 2)
    {
        // bus status: 12 generic bytes, then 12 bytes per interface
        const unsigned entries = P >= 12 ? (P - 12) / 12 : 0;
        vp_assert(cnt == entries, "C15: one interface-status packet per bus-status entry");
        for (unsigned e = 0; e < MAXE; ++e)
            if (e < entries && e < cnt)
            {
                const Packet& p = *(*ps)[e];
                const uint8_t* en = pl + 12 + 12 * e;
                vp_assert(p.getDeviceId() == vp_be16(f) && p.getTimestamp() == vp_be64(f + 16), "C15: device id and timestamp equal the TECMP header fields");
                vp_assert(p.getPayload().getType().getType() == PayloadType::ifStatMsg, "C15: bus-status entry yields an interface status payload");
                vp_assert(p.getInterfaceId() == vp_be32(en), "C15: packet interface id equals the entry's interface id");
                const InterfacePayload& ip = static_cast<const InterfacePayload&>(p.getPayload());
                vp_assert(ip.getInterfaceId() == vp_be32(en), "C15: interface id equals the entry's big-endian field");
                vp_assert(ip.getMsgTotalRx() == vp_be32(en + 4), "C15: message counter equals the entry's big-endian field");
                vp_assert(ip.getErrorsTotalRx() == vp_be32(en + 8), "C15: error counter equals the entry's big-endian field");
            }
        return;
    }
#endif
}


#if MT == 1 && N >= 64 && defined(CMSERIAL)
// History independence of the (static) TECMP conversion: two capture-module status messages with the same serial number and
// different version bytes; the second packet must carry the second message's version strings.
VP_HARNESS(h_tecmp_cm_twice)
{
    Packets* ps[2];
    static uint8_t fr[2][N];
    for (int k = 0; k < 2; ++k)
    {
        vp_bytes(fr[k], N);
        uint8_t* buf = static_cast<uint8_t*>(operator new(N));
        for (unsigned i = 0; i < N; ++i)
            buf[i] = fr[k][i];
        buf[0] = 0;
        buf[5] = 1;
        buf[6] = 0;  // data type 0 (0xFF00 would collide with the library's invalid-header sentinel)
        buf[7] = 0;
        vp_put16(buf + 24, P);
        vp_put32(buf + 28 + 8, CMSERIAL);
        buf[28 + 13] = static_cast<uint8_t>(1 + k);
        buf[28 + 14] = static_cast<uint8_t>(2 + k);
        buf[28 + 15] = static_cast<uint8_t>(3 + 7 * k);
        buf[28 + 16] = static_cast<uint8_t>(4 + k);
        buf[28 + 17] = static_cast<uint8_t>(5 * (1 - k));
        Decoder* d = new Decoder;
        ps[k] = new Packets(d->decode(buf, N));
    }
    vp_assert(ps[0]->size() == 1 && ps[1]->size() == 1, "C15: each capture-module status yields one packet");
    if (ps[1]->size() != 1)
        return;
    const CaptureModulePayload& cm = static_cast<const CaptureModulePayload&>((*ps[1])[0]->getPayload());
    vp_assert(svIs(cm.getHardwareVersion(), "v5.0", 4), "C15: the second message's hardware version is converted from its own bytes (no state carried between calls)");
    vp_assert(svIs(cm.getSoftwareVersion(), "v2.3.10", 7), "C15: the second message's software version is converted from its own bytes (no state carried between calls)");
}
#endif

// Leaf check of the TECMP header gate with the declared payload length (and every other header byte) symbolic: a header is
// accepted exactly when the declared length is non-zero and header + declared length fit the buffer. HSZ >= 0: the buffer
// is an exact HSZ-byte allocation. HSZ = -1: the size argument itself is symbolic over all size_t values >= 28 (the gate
// dereferences only the 28 header bytes, which the run checks).
#ifdef HSZ
namespace TECMP
{
struct VerifAccess
{
    static CmpHeader GetHeader(const void* d, size_t n, uint8_t** p) { return TECMP::Decoder::GetHeader(d, n, p); }
};
}
VP_HARNESS(h_tecmp_header)
{
#if HSZ >= 0
    const size_t sz = HSZ;
    const size_t alloc = HSZ;
#else
    const size_t sz = vp_u64();
    vp_assume(sz >= 28);
    const size_t alloc = 28;
#endif
    static uint8_t hb[HSZ > 28 ? HSZ : 28];
    vp_bytes(hb, alloc);
    uint8_t* buf = static_cast<uint8_t*>(operator new(alloc ? alloc : 1));
    for (size_t i = 0; i < alloc; ++i)
        buf[i] = hb[i];
    uint8_t* pp = reinterpret_cast<uint8_t*>(8);
    TECMP::CmpHeader h = TECMP::VerifAccess::GetHeader(buf, sz, &pp);
    const bool accepted = h.isValid() && pp != nullptr;
    if (sz < 28)
    {
        vp_assert(!accepted, "C15: a buffer shorter than the TECMP header is not accepted");
        return;
    }
    const uint64_t declared = vp_be16(hb + 24);
    const bool fits = declared != 0 && declared <= sz - 28;
    const bool sentinel = vp_be16(hb + 6) == 0xFF00 || hb[5] == 0xFF;  // no such data type: the library's own "invalid header" marker
    if (!fits)
        vp_assert(!accepted, "C15: a declared payload length of zero or beyond the buffer is not accepted");
    if (!fits)
        vp_assert(!accepted, "C02: a TECMP header whose declared payload does not fit the buffer is not accepted (later reads use the declared length)");
    else if (!sentinel)
    {
        vp_assert(accepted, "C15: a header whose declared payload fits the buffer is accepted");
        vp_assert(pp == buf + 28, "C15: the payload starts right after the 28-byte header");
        vp_assert(h.getPayloadLength() == declared && h.getDeviceId() == hb[1] && h.getTimestamp() == vp_be64(hb + 16) && h.getInterfaceId() == vp_be32(hb + 12),
                  "C15: accepted header carries the wire fields");
    }
}
#endif
