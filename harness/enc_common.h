// Shared by enc.cpp (C07-C10) and rt.cpp (C01, C20): batch shape parameters, symbolic source data, packet construction
// and the call of the real Encoder::encode.
#pragma once
#include <asam_cmp/can_payload.h>
#include <asam_cmp/encoder.h>
#include <asam_cmp/ethernet_payload.h>
#include <asam_cmp/lin_payload.h>
#include <cstring>
#include <new>
#include "verif.h"
using namespace ASAM::CMP;

#ifndef K
#define K 1
#endif
#ifndef L0
#define L0 8
#endif
#ifndef L1
#define L1 8
#endif
#ifndef L2
#define L2 8
#endif
#ifndef T0
#define T0 1
#endif
#ifndef T1
#define T1 1
#endif
#ifndef T2
#define T2 1
#endif
#ifndef MAXB
#define MAXB 40
#endif
#ifndef MINB
#define MINB 0
#endif
#ifndef API
#define API 1  // 0: encode(const Packet&), 1: iterator over Packet, 2: iterator over shared_ptr<Packet>
#endif
#ifndef RT
#define RT 0xFE
#endif
#ifndef MAXF
#define MAXF 8
#endif
#define LMAX 136

namespace ASAM
{
namespace CMP
{
    struct VerifAccess
    {
        static uint16_t& seq(Encoder& e) { return e.sequenceCounter; }
        static CmpHeader::MessageType& msgType(Encoder& e) { return e.messageType; }
        static size_t& bytesLeft(Encoder& e) { return e.bytesLeft; }
        static std::vector<std::vector<uint8_t>>& frames(Encoder& e) { return e.cmpFrames; }
        static std::vector<uint8_t>& tmpl(Encoder& e) { return e.cmpFrameTemplate; }
    };
}
}

using Frames = std::vector<std::vector<uint8_t>>;
static const unsigned LEN[3] = {L0, L1, L2};
static const unsigned TYP[3] = {T0, T1, T2};

struct Src
{
    uint8_t data[3][LMAX];
    uint8_t rawType[3];
    uint64_t ts[3];
    uint32_t ifId[3];
    uint16_t vendorId[3];
    uint8_t flags[3];
    uint16_t pktDev[3];   // the packets' own device / stream ids (e.g. left from decoding): the encoder's ids must win
    uint8_t pktStream[3];
    uint8_t version;
    uint16_t deviceId;
    uint8_t streamId;
    uint16_t start;  // counter value before the call
};

static Src g_src;

static void drawSrc(Src& s)
{
    for (unsigned i = 0; i < K; ++i)
    {
        vp_bytes(s.data[i], LEN[i]);
        // the payload-type byte shares a word with the message type inside PayloadType; a symbolic byte makes
        // every message-type dispatch symbolic for CBMC's simplifier, so it is a (concrete) shape parameter
        s.rawType[i] = RT;
        s.ts[i] = vp_u64();
        s.ifId[i] = vp_u32();
        s.vendorId[i] = vp_u16();
        s.flags[i] = vp_u8();
        s.pktDev[i] = vp_u16();
        s.pktStream[i] = vp_u8();
    }
    s.version = vp_u8();
    s.deviceId = vp_u16();
    s.streamId = vp_u8();
    s.start = vp_u16();
}

static Packet* mkPacket(const Src& s, unsigned i)
{
    Payload pl(PayloadType(static_cast<CmpHeader::MessageType>(TYP[i]), s.rawType[i]), s.data[i], LEN[i]);
    Packet* p = new Packet;
    p->setPayload(pl);
    p->setVersion(s.version);
    p->setTimestamp(s.ts[i]);
    p->setInterfaceId(s.ifId[i]);
    p->setVendorId(s.vendorId[i]);
    p->setCommonFlags(s.flags[i]);
    p->setDeviceId(s.pktDev[i]);
    p->setStreamId(s.pktStream[i]);
    return p;
}

static Frames* doEncode(Encoder& e, Packet* const* pk)
{
    DataContext ctx{MINB, MAXB};
#if API == 0
    return new Frames(e.encode(*pk[0], ctx));
#elif API == 1
    std::vector<Packet>* v = new std::vector<Packet>;
    for (unsigned i = 0; i < K; ++i)
        v->push_back(*pk[i]);
    return new Frames(e.encode(v->begin(), v->end(), ctx));
#else
    std::vector<std::shared_ptr<Packet>>* v = new std::vector<std::shared_ptr<Packet>>;
    for (unsigned i = 0; i < K; ++i)
        v->push_back(std::make_shared<Packet>(*pk[i]));
    return new Frames(e.encode(v->begin(), v->end(), ctx));
#endif
}

