// C14: packets and payloads behave as values.
#include <asam_cmp/can_payload.h>
#include <asam_cmp/packet.h>
#include <asam_cmp/tecmp_payload.h>
#include <new>
#include <utility>
#include "verif.h"
using namespace ASAM::CMP;

#ifndef LA
#define LA 8   // source payload length; -1: packet without payload object
#endif
#ifndef LB
#define LB -1  // target payload length; -1: default-constructed target
#endif
#ifndef OP
#define OP 0   // 0 copy-ctor, 1 move-ctor, 2 copy-assign, 3 move-assign, 4 self copy-assign, 5 copy-assign onto an equal-looking target
#endif
#ifndef PT
#define PT 0xFE  // payload type byte (0xFE generic, 1 CAN)
#endif
#define LMAXV 24

struct PSnap
{
    bool hasPayload, valid;
    uint8_t version, streamId, flags, seg;
    uint16_t deviceId, seq, vendorId, len;
    uint32_t ifId, type;
    uint64_t ts;
    uint8_t bytes[LMAXV];
};

static void snap(const Packet& p, PSnap& s, bool hasPayload)
{
    s.hasPayload = hasPayload;
    s.valid = p.isValid();
    s.version = p.getVersion();
    s.streamId = p.getStreamId();
    s.deviceId = p.getDeviceId();
    s.seq = p.getSequenceCounter();
    s.ts = p.getTimestamp();
    s.ifId = p.getInterfaceId();
    s.vendorId = p.getVendorId();
    s.flags = p.getCommonFlags();
    s.seg = static_cast<uint8_t>(p.getSegmentType());
    s.len = p.getPayloadLength();
    s.type = 0;
    for (unsigned i = 0; i < LMAXV; ++i)
        s.bytes[i] = 0;
    if (hasPayload)
    {
        s.type = p.getPayload().getType().getType();
        vp_assert(p.getPayload().getLength() == s.len, "C14: payload length getter consistent");
        const uint8_t* raw = p.getPayload().getRawPayload();
        for (unsigned i = 0; i < LMAXV; ++i)
            if (i < s.len)
                s.bytes[i] = raw[i];
    }
}

static bool same(const PSnap& a, const PSnap& b)
{
    bool eq = a.hasPayload == b.hasPayload && a.valid == b.valid && a.version == b.version && a.streamId == b.streamId && a.deviceId == b.deviceId && a.seq == b.seq &&
              a.ts == b.ts && a.ifId == b.ifId && a.vendorId == b.vendorId && a.flags == b.flags && a.seg == b.seg && a.len == b.len &&
              a.type == b.type;
    for (unsigned i = 0; i < LMAXV; ++i)
        eq = eq && a.bytes[i] == b.bytes[i];
    return eq;
}

#ifndef SRCSET
#define SRCSET 0   // 1: packets with a payload of >= 16 bytes are built through the typed API and setPayload
#endif
static Packet* mk(int len)
{
    Packet* p;
    if (len < 0)
        p = new Packet;
#if SRCSET
    else if (len >= 16)
    {
        // a typed payload installed through setPayload (no validation on that path): CAN payload built through the API whose
        // flags may carry bus-error bits - a packet the validators would reject still has to copy as it is
        CanPayload pl;
        static uint8_t d8[LMAXV];
        vp_bytes(d8, len - 16);
        pl.setData(d8, static_cast<uint8_t>(len - 16));
        pl.setId(vp_u32() & 0x1FFFFFFF);
        pl.setFlags(vp_u16());
        pl.setErrorPosition(vp_u8());
        p = new Packet;
        p->setPayload(pl);
        p->setTimestamp(vp_u64());
        p->setInterfaceId(vp_u32());
        p->setCommonFlags(vp_u8() & 0xB3);
    }
#endif
    else
    {
        static uint8_t buf[16 + LMAXV];
        vp_bytes(buf, 16 + (len > 0 ? len : 0));
        buf[12] &= 0xBF;
        buf[13] = PT;
        vp_put16(buf + 14, static_cast<uint16_t>(len));
        p = new Packet(CmpHeader::MessageType::data, buf, 16 + len);
    }
    p->setVersion(vp_u8());
    p->setDeviceId(vp_u16());
    p->setStreamId(vp_u8());
    p->setSequenceCounter(vp_u16());
    p->setVendorId(vp_u16());
    p->setSegmentType(static_cast<MessageHeader::SegmentType>(vp_u8() & 0x0C));
    return p;
}

static bool hasPl(const Packet& p, int len)
{
    (void) p;
    return len >= 0;
}

VP_HARNESS(h_packet_value)
{
    Packet* a = mk(LA);
    static PSnap sa, sb, st, sa2;
    snap(*a, sa, hasPl(*a, LA));
    Packet* t = nullptr;
    bool targetHasPayload = LA >= 0;
#if OP == 0
    t = new Packet(*a);
    snap(*a, sa2, LA >= 0);
    vp_assert(same(sa, sa2), "C14: copy construction leaves the source unchanged");
#elif OP == 1
    t = new Packet(std::move(*a));
#elif OP == 2
    t = mk(LB);
    *t = *a;
    snap(*a, sa2, LA >= 0);
    vp_assert(same(sa, sa2), "C14: copy assignment leaves the source unchanged");
#elif OP == 3
    t = mk(LB);
    *t = std::move(*a);
#elif OP == 4
    t = a;
    *t = *static_cast<const Packet*>(a);
#elif OP == 5
    t = new Packet(*a);  // equal-looking target
    *t = *a;
    snap(*a, sa2, LA >= 0);
    vp_assert(same(sa, sa2), "C14: copy assignment leaves the source unchanged");
#endif
    snap(*t, st, targetHasPayload);
    vp_assert(same(sa, st), "C14: target equals the source's (former) state in every field and payload byte");
#if OP == 0 || OP == 2 || OP == 5
    // no sharing: distinct payload objects and buffers; destroying the copy leaves the original usable
    if (LA >= 0)
    {
        vp_assert(&t->getPayload() != &a->getPayload(), "C14: a copy has its own payload object");
        if (LA > 0)
            vp_assert(t->getPayload().getRawPayload() != a->getPayload().getRawPayload(), "C14: a copy has its own payload buffer");
    }
    t->setTimestamp(~sa.ts);
    t->setDeviceId(static_cast<uint16_t>(~sa.deviceId));
    if (LA >= 0)
        t->getPayload().setRawPayloadType(static_cast<uint8_t>(PT ^ 0x55));
    snap(*a, sa2, LA >= 0);
    vp_assert(same(sa, sa2), "C14: mutating the copy leaves the original unchanged");
    delete t;
    snap(*a, sa2, LA >= 0);
    vp_assert(same(sa, sa2), "C14: destroying the copy leaves the original intact");
#endif
}

// equality: reflexive, symmetric, != is the negation, == agrees with field-wise comparison (non-empty payloads)
VP_HARNESS(h_packet_eq)
{
    Packet* a = mk(LA);
    Packet* b = mk(LB);
    vp_assert(*a == *a, "C14: packet equality is reflexive");
    vp_assert((*a == *b) == (*b == *a), "C14: packet equality is symmetric");
    vp_assert((*a != *b) == !(*a == *b), "C14: packet inequality is the negation of equality");
    static PSnap sa, sb;
    snap(*a, sa, LA >= 0);
    snap(*b, sb, LB >= 0);
    if (LA > 0 && LB > 0)
        vp_assert((*a == *b) == same(sa, sb), "C14: packet equality agrees with field-by-field comparison");
    Packet* c = new Packet(*a);
    vp_assert(*c == *a && *a == *c, "C14: a copy compares equal to its original");
}

VP_HARNESS(h_payload_eq)
{
    static uint8_t da[LMAXV], db[LMAXV];
    const unsigned la = LA > 0 ? LA : 0, lb = LB > 0 ? LB : 0;
    vp_bytes(da, la);
    vp_bytes(db, lb);
    const uint8_t ta = vp_u8(), tb = vp_u8();
    const uint8_t ma = vp_u8(), mb = vp_u8();  // message-type half of the payload type
    vp_assume(ma != 0 && mb != 0);
    vp_assume(!(ma == 0xFF && ta == 0xFF) && !(mb == 0xFF && tb == 0xFF));  // 0xFFFF is TECMP's "invalid" type: such a payload does not keep its data
    Payload* a = new Payload(PayloadType(static_cast<CmpHeader::MessageType>(ma), ta), da, la);
    Payload* b = new Payload(PayloadType(static_cast<CmpHeader::MessageType>(mb), tb), db, lb);
    vp_assert(*a == *a, "C14: payload equality is reflexive");
    vp_assert((*a == *b) == (*b == *a), "C14: payload equality is symmetric");
    bool fieldwise = ta == tb && ma == mb && la == lb;
    for (unsigned i = 0; i < LMAXV; ++i)
        if (i < la && i < lb)
            fieldwise = fieldwise && da[i] == db[i];
    if (ta != 0 && tb != 0)
        vp_assert((*a == *b) == fieldwise, "C14: payload equality agrees with type, length and bytes");
    Payload* c = new Payload(*a);
    vp_assert(*c == *a, "C14: a payload copy compares equal to its original");
    Payload* m = new Payload(std::move(*c));
    vp_assert(*m == *a, "C14: a moved-to payload equals the source's former state");

    TECMP::Payload* x = new TECMP::Payload(TECMP::PayloadType((static_cast<uint32_t>(ma) << 8) | ta), da, la);
    TECMP::Payload* y = new TECMP::Payload(TECMP::PayloadType((static_cast<uint32_t>(mb) << 8) | tb), db, lb);
    vp_assert(*x == *x, "C14: TECMP payload equality is reflexive");
    vp_assert((*x == *y) == (*y == *x), "C14: TECMP payload equality is symmetric");
    vp_assert((*x == *y) == fieldwise, "C14: TECMP payload equality agrees with type, length and bytes");
    TECMP::Payload* z = new TECMP::Payload(*x);
    vp_assert(*z == *x, "C14: a TECMP payload copy compares equal to its original");
}


// assignment onto a target that differs from the source only in the payload's message type (or only in one field)
VP_HARNESS(h_packet_assign_diff)
{
    static uint8_t buf[16 + LMAXV];
    const unsigned la = LA >= 0 ? LA : 1;  // 0: empty payloads (equality ignores their type; assignment must not)
    vp_bytes(buf, 16 + la);
    buf[12] &= 0xBF;
    buf[13] = 0x42;
    vp_put16(buf + 14, static_cast<uint16_t>(la));
    Packet* a = new Packet(CmpHeader::MessageType::data, buf, 16 + la);
    Packet* t = new Packet(CmpHeader::MessageType::status, buf, 16 + la);
    const uint8_t which = vp_u8();
    vp_assume(which < 4);
    if (which == 1)
        t->setInterfaceId(~a->getInterfaceId());
    if (which == 2)
        t->setVersion(static_cast<uint8_t>(a->getVersion() + 1));
    if (which == 3)
        t->getPayload().setMessageType(CmpHeader::MessageType::data), t->getPayload().setRawPayloadType(0x43);
    if (la > 0)
        vp_assert(!(*a == *t) && (*a != *t), "C14: packets that differ in the payload's message type (or any field) are unequal");
    *t = *a;
    vp_assert(t->getPayload().getType() == a->getPayload().getType() && t->getInterfaceId() == a->getInterfaceId() && t->getVersion() == a->getVersion() && t->getVendorId() == a->getVendorId(),
              "C14: assignment makes the target equal to the source even when the two looked alike before");
    vp_assert(*t == *a, "C14: after assignment target and source compare equal");
}
