// C02 (memory safety / ownership), C04 (wire fidelity) on the real Decoder::decode, single call.
#include <asam_cmp/decoder.h>
#include <asam_cmp/tecmp_decoder.h>
#include <cstring>
#include <new>
#include "verif.h"
using namespace ASAM::CMP;

#ifndef N
#define N 32  // frame bytes (exact size of the input allocation)
#endif
#ifndef VER
#define VER 1  // CMP version byte: concrete shape parameter (DESIGN.md 1.2)
#endif
#define MAXP ((N) / 24 + 1)

using Packets = std::vector<std::shared_ptr<Packet>>;

static uint64_t g_sink;
static uint8_t g_orig[N + 1];

// read every scalar getter and the first and last payload byte: under CBMC each dereference carries a
// pointer check (deallocated / out of bounds / NULL), natively ASan plays that role
static void touch(const Packet& p)
{
    g_sink += p.getVersion() + p.getStreamId() + p.getDeviceId() + p.getCommonFlags() + p.getTimestamp() + p.getInterfaceId() + p.getVendorId() +
              p.isValid() + p.getSequenceCounter();
    const Payload& pl = p.getPayload();
    g_sink += pl.getRawPayloadType() + static_cast<unsigned>(pl.getMessageType());
    const size_t len = p.getPayloadLength();
    vp_assert(pl.getLength() == len, "C02: payload object length equals the packet's payload length");
    vp_assert(len <= (N >= 24 ? N - 24 : 0), "C02: payload no longer than the bytes that follow the headers");
    const uint8_t* raw = pl.getRawPayload();
    if (len > 0)
        g_sink += raw[0] + raw[len - 1];
}

// C02 (i): any N bytes on a fresh decoder
VP_HARNESS(h_dec_fresh)
{
    uint8_t* buf = static_cast<uint8_t*>(operator new(N ? N : 1));
    vp_bytes(buf, N);
#if N > 0
    buf[0] = VER;
#endif
#if defined(FMT) && N > 4
    buf[4] = FMT;   // optional concrete CMP message type (large status shapes)
#endif
#if defined(FPT) && N > 21
    buf[21] = FPT;  // optional concrete payload type of the first message
#endif
    for (unsigned i = 0; i < N; ++i)
        g_orig[i] = buf[i];
    Decoder* d = new Decoder;
    Packets* ps = new Packets(d->decode(buf, N));
    vp_assert(ps->size() <= N / 12, "C02: at most one packet per 12 input bytes");
    vp_assert(ps->size() <= MAXP, "C02: at most one packet per complete 24-byte message");
#ifdef NOTAKE
    return;
#endif
    const unsigned cnt = static_cast<unsigned>(ps->size());
    for (unsigned i = 0; i < N; ++i)
        vp_assert(buf[i] == g_orig[i], "C02: decode does not write to the input buffer");
    // the packets own their data: clobber and release the input (and destroy the decoder), then use every packet
    vp_bytes(buf, N);
    operator delete(buf);
#ifdef DESTROY
    delete d;
#endif
    // constant trip count, guard inside: clang must not fold the symbolic count into the loop bound
    for (unsigned i = 0; i < MAXP; ++i)
        if (i < cnt)
        {
            vp_assert((*ps)[i].get() != nullptr, "C02: returned packet is non-null");
            touch(*(*ps)[i]);
        }
}

// =====================================================================================================
// C04: a well-formed frame with K unsegmented messages of concrete lengths (contents, types, ids symbolic),
// optionally zero-padded or truncated; every returned packet is compared with the wire by an independent
// big-endian reader, and the valid/invalid marking with independent per-type structure rules.
#ifndef KM
#define KM 1
#endif
#ifndef ML0
#define ML0 8
#endif
#ifndef ML1
#define ML1 8
#endif
#ifndef ML2
#define ML2 8
#endif
#ifndef PADZ
#define PADZ 0   // zero bytes appended after the last message
#endif
#ifndef TRUNC
#define TRUNC 0  // bytes cut from the end of the frame
#endif
#ifndef MTYPE
#define MTYPE -1  // CMP header message type byte: -1 = symbolic
#endif
#ifndef PTYPE
#define PTYPE -1  // payload type byte of every message: -1 = symbolic (non-zero)
#endif
static const unsigned MLEN[3] = {ML0, ML1, ML2};
#define FULLSZ (8 + (KM > 0 ? 16 + ML0 : 0) + (KM > 1 ? 16 + ML1 : 0) + (KM > 2 ? 16 + ML2 : 0))
#define NTOT (FULLSZ + PADZ - TRUNC)

// independent structure rules: 1 = must be valid, 0 = must be invalid, 2 = not decided by the property
static int expectValid(unsigned msgType, unsigned ptype, const uint8_t* p, unsigned L)
{
    if (msgType == 0)
        return 2;
    const unsigned t = (msgType << 8) | ptype;
    if (t == 0x0101 || t == 0x0102)
    {
        if (L < 16 || p[15] > L - 16 || (vp_be16(p) & 0x03FF) != 0)
            return 0;
        return vp_be16(p + 12) == 0 ? 1 : 2;
    }
    if (t == 0x0103)
        return (L >= 8 && p[7] <= L - 8) ? 1 : 0;
    if (t == 0x0108)
    {
        if (L < 6 || vp_be16(p + 4) > L - 6 || (vp_be16(p) & 0x003B) != 0)
            return 0;
        return (vp_be16(p) & 0x007F) == 0 ? 1 : 2;
    }
    if (t == 0x0107)
    {
        if (L < 16)
            return 0;
        return (vp_be16(p) & 0x0003) <= 1 ? 1 : 0;
    }
    if (t == 0x0301)
    {
        if (L < 36)
            return 0;
        unsigned pos = 26;  // uptime 8, gm identity 8, clock quality 4, utc offset 2, time source, domain, reserved, gPTP flags
        for (unsigned i = 0; i < 5; ++i)
        {
            if (L - pos < 2)
                return 0;
            const unsigned len = vp_be16(p + pos);
            pos += 2;
            if (len > L - pos)
                return 0;
            pos += len;
        }
        return 1;
    }
    if (t == 0x0302)
    {
        if (L < 40)
            return 0;
        unsigned pos = 36;
        unsigned cnt = vp_be16(p + pos);
        pos += 2;
        cnt += cnt % 2;
        if (cnt > L - pos || L - pos - cnt < 2)
            return 0;
        pos += cnt;
        const unsigned vlen = vp_be16(p + pos);
        pos += 2;
        if (vlen > L - pos)
            return 0;
        return p[29] <= 2 ? 1 : 2;
    }
    return 1;  // unknown payload kinds are carried as generic payloads
}

VP_HARNESS(h_dec_wire)
{
    static uint8_t frame[FULLSZ + PADZ + 1];
    vp_bytes(frame, FULLSZ);
    frame[0] = VER;
    if (MTYPE >= 0)
        frame[4] = static_cast<uint8_t>(MTYPE);
    unsigned off[3];
    unsigned pos = 8;
    for (unsigned i = 0; i < KM; ++i)
    {
        off[i] = pos;
        frame[pos + 12] &= 0xB3;  // unsegmented, no error-in-payload flag (masked, not assumed: lets symex prune the reassembly path)
        if (PTYPE >= 0)
            frame[pos + 13] = static_cast<uint8_t>(PTYPE);
        vp_assume(frame[pos + 13] != 0);
        vp_put16(frame + pos + 14, static_cast<uint16_t>(MLEN[i]));
        pos += 16 + MLEN[i];
    }
    for (unsigned i = 0; i < PADZ; ++i)
        frame[FULLSZ + i] = 0;
    // expected number of packets: messages that lie completely inside the NTOT bytes handed to the decoder
    unsigned expect = 0;
    for (unsigned i = 0; i < KM; ++i)
        if (off[i] + 16 + MLEN[i] <= NTOT)
            expect = i + 1;
    uint8_t* buf = static_cast<uint8_t*>(operator new(NTOT ? NTOT : 1));
    for (unsigned i = 0; i < NTOT; ++i)
        buf[i] = frame[i];
    Decoder* d = new Decoder;
    Packets* ps = new Packets(d->decode(buf, NTOT));
    vp_assert(ps->size() == expect, "C04: one packet per message that is completely contained in the frame, none for padding");
    const unsigned msgType = frame[4];
    for (unsigned i = 0; i < KM; ++i)
        if (i < ps->size() && i < expect)
        {
            const Packet& p = *(*ps)[i];
            const uint8_t* m = frame + off[i];
            vp_assert(p.getVersion() == frame[0], "C04: version equals header byte 0");
            vp_assert(p.getDeviceId() == vp_be16(frame + 2), "C04: device id equals big-endian header bytes 2-3");
            vp_assert(p.getStreamId() == frame[5], "C04: stream id equals header byte 5");
            vp_assert(p.getTimestamp() == vp_be64(m), "C04: timestamp equals big-endian message bytes 0-7");
            if (msgType == 1)
                vp_assert(p.getInterfaceId() == vp_be32(m + 8), "C04: interface id of a data message equals big-endian message bytes 8-11");
            if (msgType == 3 || msgType == 0xFF)
                vp_assert(p.getVendorId() == vp_be16(m + 10), "C04: vendor id of a status/vendor message equals big-endian message bytes 10-11");
            vp_assert(p.getCommonFlags() == m[12], "C04: common flags equal message byte 12");
            vp_assert(p.getSegmentType() == MessageHeader::SegmentType::unsegmented, "C04: unsegmented message yields an unsegmented packet");
            vp_assert(p.getPayloadLength() == MLEN[i], "C04: payload length equals the declared length");
            const int ev = expectValid(msgType, m[13], m + 16, MLEN[i]);
            if (ev == 1)
                vp_assert(p.isValid(), "C04: structurally consistent payload is returned valid");
            if (ev == 0)
                vp_assert(!p.isValid(), "C04: payload inconsistent with its length / carrying bus-error flags is marked invalid");
            if (p.isValid())
            {
                vp_assert(static_cast<uint8_t>(p.getMessageType()) == msgType, "C04: message type equals header byte 4");
                vp_assert(p.getPayloadType() == m[13], "C04: payload type equals message byte 13");
                const uint8_t* raw = p.getPayload().getRawPayload();
                for (unsigned b = 0; b < MLEN[i]; ++b)
                    vp_assert(raw[b] == m[16 + b], "C04: payload bytes equal the wire bytes");
            }
        }
}
