// C02 (memory safety / ownership), C04 (wire fidelity) on the real Decoder::decode, single call.
#include <asam_cmp/decoder.h>
#include <asam_cmp/tecmp_decoder.h>
#include <cstring>
#include <new>
#include "verif.h"
using namespace ASAM::CMP;

#ifndef N
#define N 32  // frame bytes (exact size of the input allocation)
#endif
#ifndef VER
#define VER 1  // CMP version byte: concrete shape parameter (DESIGN.md 1.2)
#endif
#define MAXP ((N) / 24 + 1)

using Packets = std::vector<std::shared_ptr<Packet>>;

static uint64_t g_sink;
static uint8_t g_orig[N + 1];

// read every scalar getter and the first and last payload byte: under CBMC each dereference carries a
// pointer check (deallocated / out of bounds / NULL), natively ASan plays that role
static void touch(const Packet& p)
{
    g_sink += p.getVersion() + p.getStreamId() + p.getDeviceId() + p.getCommonFlags() + p.getTimestamp() + p.getInterfaceId() + p.getVendorId() +
              p.isValid() + p.getSequenceCounter();
    const Payload& pl = p.getPayload();
    g_sink += pl.getRawPayloadType() + static_cast<unsigned>(pl.getMessageType());
    const size_t len = p.getPayloadLength();
    vp_assert(pl.getLength() == len, "C02: payload object length equals the packet's payload length");
    vp_assert(len <= (N >= 24 ? N - 24 : 0), "C02: payload no longer than the bytes that follow the headers");
    const uint8_t* raw = pl.getRawPayload();
    if (len > 0)
        g_sink += raw[0] + raw[len - 1];
}

// C02 (i): any N bytes on a fresh decoder
VP_HARNESS(h_dec_fresh)
{
    uint8_t* buf = static_cast<uint8_t*>(operator new(N ? N : 1));
    vp_bytes(buf, N);
#if N > 0
    buf[0] = VER;
#endif
    for (unsigned i = 0; i < N; ++i)
        g_orig[i] = buf[i];
    Decoder* d = new Decoder;
    Packets* ps = new Packets(d->decode(buf, N));
    vp_assert(ps->size() <= N / 12, "C02: at most one packet per 12 input bytes");
    vp_assert(ps->size() <= MAXP, "C02: at most one packet per complete 24-byte message");
#ifdef NOTAKE
    return;
#endif
    const unsigned cnt = static_cast<unsigned>(ps->size());
    for (unsigned i = 0; i < N; ++i)
        vp_assert(buf[i] == g_orig[i], "C02: decode does not write to the input buffer");
    // the packets own their data: clobber and release the input (and destroy the decoder), then use every packet
    vp_bytes(buf, N);
    operator delete(buf);
#ifdef DESTROY
    delete d;
#endif
    // constant trip count, guard inside: clang must not fold the symbolic count into the loop bound
    for (unsigned i = 0; i < MAXP; ++i)
        if (i < cnt)
        {
            vp_assert((*ps)[i].get() != nullptr, "C02: returned packet is non-null");
            touch(*(*ps)[i]);
        }
}
