// C11/C12: CAN / CAN-FD header and payload classes.
#include <asam_cmp/can_fd_payload.h>
#include <asam_cmp/can_payload.h>
#include <new>
#include "fields.h"
#include "layout.h"
using namespace ASAM::CMP;

struct CanHdrT
{
    using Obj = CanPayloadBase::Header;
    static constexpr unsigned LEN = 16, HDR = 16;
    static void constrain(uint8_t*) {}
    static Obj* make(const uint8_t* raw)
    {
        Obj* o = new Obj;
        memcpy(static_cast<void*>(o), raw, LEN);
        return o;
    }
    static Obj* makeDefault() { return new Obj; }
    static void raw(const Obj& o, uint8_t* out) { memcpy(out, &o, LEN); }
};
template <class P>
struct CanPayT
{
    using Obj = P;
    static constexpr unsigned LEN = 24, HDR = 16;
    static void constrain(uint8_t*) {}
    static Obj* make(const uint8_t* raw) { return new P(raw, LEN); }
    static Obj* makeDefault() { return new P; }
    static void raw(const Obj& o, uint8_t* out)
    {
        vp_assert(o.getLength() == LEN || o.getLength() == HDR, "payload length preserved");
        memcpy(out, o.getRawPayload(), o.getLength());
    }
};

#define VPF_CLS "CanPayloadBase::Header"
VP_FIELD_HARNESS(h_canhdr, "CanPayloadBase::Header", CanHdrT, LAYOUT_CAN_HEADER)
#undef VPF_CLS
#define VPF_CLS "CanPayload"
VP_FIELD_HARNESS(h_canpay, "CanPayload", CanPayT<CanPayload>, LAYOUT_CAN_PAYLOAD)
#undef VPF_CLS
#define VPF_CLS "CanFdPayload"
VP_FIELD_HARNESS(h_canfdpay, "CanFdPayload", CanPayT<CanFdPayload>, LAYOUT_CANFD_PAYLOAD)
#undef VPF_CLS

VP_HARNESS(h_can_sizes)
{
    vp_assert(sizeof(CanPayloadBase::Header) == SIZE_CAN_HEADER, "CAN payload header is 16 bytes");
}
