// C07/C08/C09/C10 (and the encoder half of C01/C20): the real Encoder::encode on a batch of concrete shape
// (packet count, payload lengths, message types, min/max frame size) with symbolic contents, compared with
// an independent protocol model of the expected frames.
#include "enc_common.h"

// ------------------------------------------------------------------ protocol model of the expected frames
struct Model
{
    unsigned n = 0;
    unsigned size[MAXF];
    unsigned used[MAXF];
    uint8_t type[MAXF];
    uint8_t bytes[MAXF][MAXB];
    bool isHdr[MAXF][MAXB];   // byte belongs to a message header
    bool isSegFlag[MAXF][MAXB];
    bool isLen[MAXF][MAXB];
    bool isPayload[MAXF][MAXB];
};

static Model g_model;

static void modelOpen(Model& m, const Src& s, unsigned type)
{
    vp_assert(m.n < MAXF, "harness bound MAXF");
    const unsigned f = m.n++;
    memset(m.bytes[f], 0, MAXB);
    memset(m.isHdr[f], 0, MAXB);
    memset(m.isSegFlag[f], 0, MAXB);
    memset(m.isLen[f], 0, MAXB);
    memset(m.isPayload[f], 0, MAXB);
    m.type[f] = static_cast<uint8_t>(type);
    m.used[f] = 8;
    uint8_t* b = m.bytes[f];
    b[0] = s.version;
    b[1] = 0;
    vp_put16(b + 2, s.deviceId);
    b[4] = static_cast<uint8_t>(type);
    b[5] = s.streamId;
    vp_put16(b + 6, static_cast<uint16_t>(s.start + f + 1));
}

static void modelMsg(Model& m, const Src& s, unsigned i, unsigned seg, unsigned pos, unsigned n)
{
    const unsigned f = m.n - 1;
    uint8_t* b = m.bytes[f] + m.used[f];
    for (unsigned k = 0; k < 16; ++k)
        m.isHdr[f][m.used[f] + k] = true;
    m.isSegFlag[f][m.used[f] + 12] = true;
    m.isLen[f][m.used[f] + 14] = m.isLen[f][m.used[f] + 15] = true;
    vp_put32(b, static_cast<uint32_t>(s.ts[i] >> 32));
    vp_put32(b + 4, static_cast<uint32_t>(s.ts[i]));
    if (TYP[i] == 1)
        vp_put32(b + 8, s.ifId[i]);
    else if (TYP[i] == 3 || TYP[i] == 0xFF)
    {
        b[8] = b[9] = 0;
        vp_put16(b + 10, s.vendorId[i]);
    }
    else
        b[8] = b[9] = b[10] = b[11] = 0;
    b[12] = static_cast<uint8_t>((s.flags[i] & ~0x0C) | seg);
    b[13] = s.rawType[i];
    vp_put16(b + 14, static_cast<uint16_t>(n));
    for (unsigned k = 0; k < n; ++k)
    {
        b[16 + k] = s.data[i][pos + k];
        m.isPayload[f][m.used[f] + 16 + k] = true;
    }
    m.used[f] += 16 + n;
}

static void buildModel(Model& m, const Src& s)
{
    const unsigned cap = MAXB - 8;
    bool open = false;
    for (unsigned i = 0; i < K; ++i)
    {
        const unsigned L = LEN[i];
        if (16 + L > cap)
        {
            unsigned pos = 0, idx = 0;
            while (pos < L)
            {
                const unsigned n = (L - pos < cap - 16) ? L - pos : cap - 16;
                const unsigned seg = idx == 0 ? 0x04 : (pos + n == L ? 0x0C : 0x08);
                modelOpen(m, s, TYP[i]);
                modelMsg(m, s, i, seg, pos, n);
                pos += n;
                ++idx;
            }
            open = false;
        }
        else
        {
            if (!(open && m.type[m.n - 1] == TYP[i] && m.used[m.n - 1] + 16 + L <= MAXB))
                modelOpen(m, s, TYP[i]);
            modelMsg(m, s, i, 0, 0, L);
            open = true;
        }
    }
    for (unsigned f = 0; f < m.n; ++f)
        m.size[f] = m.used[f] > MINB ? m.used[f] : MINB;
}

static void checkAgainstModel(const Frames& fr, const Model& m, const Src& s, Encoder& e)
{
    vp_assert((fr.size() == 0) == (K == 0), "C07: an empty batch produces no frames, a non-empty one at least one");
    vp_assert(fr.size() == m.n, "C08: number of frames equals the protocol model (split only when needed, aggregate when it fits)");
    for (unsigned f = 0; f < MAXF; ++f)
    {
        if (f >= fr.size())
            break;
        const std::vector<uint8_t>& F = fr[f];
        vp_assert(F.size() >= MINB && F.size() <= MAXB, "C07: frame size within [min,max]");
        vp_assert(F.size() >= 8 + 16 + 1, "C07: frame holds the 8-byte header and at least one complete non-empty message");
        if (f >= m.n)
            continue;
        vp_assert(F.size() == m.size[f], "C07: frame size is max(bytes used, min): padding only up to the minimum");
        if (F.size() != m.size[f])
            continue;
        for (unsigned b = 0; b < MAXB; ++b)
        {
            if (b >= F.size())
                break;
            const bool eq = F[b] == m.bytes[f][b];
            if (b < 8)
                vp_assert(eq, "C12: frame header on the wire: version@0, reserved@1 = 0, device id@2-3 big-endian, message type@4, stream id@5, sequence counter@6-7 big-endian");
            if (b == 0)
                vp_assert(eq, "C09: frame header carries the batch's protocol version");
            else if (b == 2 || b == 3)
                vp_assert(eq, "C09: frame header carries the configured device id");
            else if (b == 4)
                vp_assert(eq, "C09: frame header message type is the type of its messages");
            else if (b == 5)
                vp_assert(eq, "C09: frame header carries the configured stream id");
            else if (b == 6 || b == 7)
                vp_assert(eq, "C09: sequence counter is previous + 1 modulo 65536");
            else if (b == 1)
                vp_assert(eq, "C12: reserved byte of the frame header is zero");
            else if (m.isSegFlag[f][b])
            {
                vp_assert((F[b] & 0x0C) == (m.bytes[f][b] & 0x0C), "C08: segment flag (unsegmented/first/intermediary/last) as the protocol prescribes");
                vp_assert((F[b] & ~0x0C) == (m.bytes[f][b] & ~0x0C), "C01: non-segmentation common flags copied to the wire");
            }
            else if (m.isLen[f][b])
                vp_assert(eq, "C07: declared payload lengths tile the frame (all but the last segment fill it)");
            else if (m.isHdr[f][b])
                vp_assert(eq, "C01: message header field (timestamp / interface or vendor id / payload type) on the wire");
            else if (m.isPayload[f][b])
                vp_assert(eq, "C07: every payload byte appears exactly once and in order");
            else
                vp_assert(F[b] == 0, "C07: padding is all zero");
        }
    }
    if (K > 0)
        vp_assert(e.getSequenceCounter() == static_cast<uint16_t>(s.start + m.n), "C09: reported counter equals that of the last emitted frame");
    else
        vp_assert(e.getSequenceCounter() == s.start, "C09: an empty batch leaves the counter unchanged");
    // scratch state is back to that of a fresh encoder (induction step of C10)
    vp_assert(VerifAccess::bytesLeft(e) == 0 && VerifAccess::frames(e).empty() && VerifAccess::tmpl(e).empty(),
              "C10: per-call scratch state is cleared on return");
}

// fresh encoder, ids set through the API, counter start installed (any value: wrap is inside every query)
VP_HARNESS(h_enc_model)
{
    Src* s = &g_src;
    drawSrc(*s);
    Packet* pk[3] = {nullptr, nullptr, nullptr};
    for (unsigned i = 0; i < K; ++i)
        pk[i] = mkPacket(*s, i);
    Encoder* e = new Encoder;
    e->setDeviceId(s->deviceId);
    e->setStreamId(s->streamId);
    vp_assert(e->getSequenceCounter() == 0, "C09: counter restarts after the device/stream id is set");
    VerifAccess::seq(*e) = s->start;
    Model* m = &g_model;
    m->n = 0;
    buildModel(*m, *s);
    Frames* fr = doEncode(*e, pk);
    checkAgainstModel(*fr, *m, *s, *e);
}

// C10 induction step: an encoder in an arbitrary post-state of earlier encode calls (any remembered message
// type, any counter) must produce what the protocol model (= a fresh encoder) prescribes.
VP_HARNESS(h_enc_used)
{
    Src* s = &g_src;
    drawSrc(*s);
    Packet* pk[3] = {nullptr, nullptr, nullptr};
    for (unsigned i = 0; i < K; ++i)
        pk[i] = mkPacket(*s, i);
    Encoder* e = new Encoder;
    e->setDeviceId(s->deviceId);
    e->setStreamId(s->streamId);
    VerifAccess::seq(*e) = s->start;
    VerifAccess::msgType(*e) = static_cast<CmpHeader::MessageType>(vp_u8());  // whatever an earlier batch left behind
    Model* m = &g_model;
    m->n = 0;
    buildModel(*m, *s);
    Frames* fr = doEncode(*e, pk);
    vp_assert(fr->size() == m->n, "C10: same number of frames as a fresh encoder");
    for (unsigned f = 0; f < MAXF; ++f)
    {
        if (f >= fr->size() || f >= m->n)
            break;
        vp_assert((*fr)[f].size() == m->size[f], "C10: same frame sizes as a fresh encoder");
        if ((*fr)[f].size() != m->size[f])
            continue;
        for (unsigned b = 0; b < MAXB; ++b)
            if (b < (*fr)[f].size())
                vp_assert((*fr)[f][b] == m->bytes[f][b], "C10: same frame bytes as a fresh encoder (counter offset aside)");
    }
}

// C09: the counter restarts at 1 after setDeviceId / setStreamId / restart, whatever it was before
VP_HARNESS(h_enc_reset)
{
    Src* s = &g_src;
    drawSrc(*s);
    Packet* pk[3] = {nullptr, nullptr, nullptr};
    for (unsigned i = 0; i < K; ++i)
        pk[i] = mkPacket(*s, i);
    Encoder* e = new Encoder;
    e->setDeviceId(s->deviceId);
    e->setStreamId(s->streamId);
    VerifAccess::seq(*e) = s->start;
    const uint8_t how = vp_u8();
    vp_assume(how < 3);
    if (how == 0)
        e->setDeviceId(s->deviceId);
    else if (how == 1)
        e->setStreamId(s->streamId);
    else
        e->restart();
    vp_assert(e->getSequenceCounter() == 0, "C09: reported counter is 0 after setDeviceId/setStreamId/restart");
    vp_assert(e->getDeviceId() == s->deviceId && e->getStreamId() == s->streamId, "C09: configured ids are reported");
    s->start = 0;
    Model* m = &g_model;
    m->n = 0;
    buildModel(*m, *s);
    Frames* fr = doEncode(*e, pk);
    checkAgainstModel(*fr, *m, *s, *e);
}

// C09/C10 direct history check: a real earlier encode call (other version, chosen message type / payload length / frame
// size) followed by the batch; the second call must produce what the protocol model prescribes for a fresh encoder whose
// counter continues where the first call stopped.
#ifndef PT0
#define PT0 T0  // message type of the earlier call's packet
#endif
#ifndef PL0
#define PL0 8   // its payload length
#endif
#ifndef PMAX
#define PMAX MAXB  // the earlier call's max frame size
#endif
#ifndef PRIOR2
#define PRIOR2 0  // 1: the earlier call is a two-packet batch whose second packet is invalid (payload type byte 0)
#endif
#ifndef CFG
#define CFG 0   // configuration change between the two calls: 1 device id, 2 stream id, 3 restart, 4 both ids
#endif
VP_HARNESS(h_enc_twice)
{
    Src* s = &g_src;
    drawSrc(*s);
    Packet* pk[3] = {nullptr, nullptr, nullptr};
    for (unsigned i = 0; i < K; ++i)
        pk[i] = mkPacket(*s, i);
    Encoder* e = new Encoder;
    e->setDeviceId(s->deviceId);
    e->setStreamId(s->streamId);
    VerifAccess::seq(*e) = s->start;
    {
        static uint8_t junk[LMAX];
        vp_bytes(junk, PL0);
        Payload pl(PayloadType(static_cast<CmpHeader::MessageType>(PT0), RT), junk, PL0);
        Packet* p0 = new Packet;
        p0->setPayload(pl);
        p0->setVersion(static_cast<uint8_t>(s->version ^ 0x5A));
        p0->setTimestamp(vp_u64());
        p0->setCommonFlags(vp_u8());
        DataContext c0{0, PMAX};
#if PRIOR2
        // the earlier call is a batch through the iterator overload whose second packet has payload type byte 0 (a packet
        // that reports !isValid()): whatever that call returns, it must not leave anything behind for the next call
        static uint8_t junk2[8];
        vp_bytes(junk2, 8);
        Packet* p1 = new Packet;
        p1->setPayload(Payload(PayloadType(static_cast<CmpHeader::MessageType>(PT0), 0), junk2, 8));
        p1->setVersion(p0->getVersion());
        std::vector<Packet>* v0 = new std::vector<Packet>;
        v0->push_back(*p0);
        v0->push_back(*p1);
        Frames* f0 = new Frames(e->encode(v0->begin(), v0->end(), c0));
        (void)f0;
#else
        Frames* f0 = new Frames(e->encode(*p0, c0));
        vp_assert(f0->size() >= 1, "C10: the earlier call produced frames");
#endif
    }
#if CFG == 1
    // configuration change between the calls (C09: "any history of configuration changes and encode calls")
    s->deviceId = vp_u16();
    e->setDeviceId(s->deviceId);
#elif CFG == 2
    s->streamId = vp_u8();
    e->setStreamId(s->streamId);
#elif CFG == 3
    e->restart();
#elif CFG == 4
    s->deviceId = vp_u16();
    s->streamId = vp_u8();
    e->setStreamId(s->streamId);
    e->setDeviceId(s->deviceId);
#endif
#if CFG
    vp_assert(e->getSequenceCounter() == 0, "C09: reported counter is 0 after setDeviceId/setStreamId/restart that follows an encode call");
    vp_assert(e->getDeviceId() == s->deviceId && e->getStreamId() == s->streamId, "C09: configured ids are reported");
#endif
    s->start = e->getSequenceCounter();
    Model* m = &g_model;
    m->n = 0;
    buildModel(*m, *s);
    Frames* fr = doEncode(*e, pk);
    checkAgainstModel(*fr, *m, *s, *e);
    vp_assert(fr->size() == m->n, "C10: same number of frames as a fresh encoder");
    for (unsigned f = 0; f < MAXF; ++f)
        if (f < fr->size() && f < m->n && (*fr)[f].size() == m->size[f])
            for (unsigned b = 0; b < MAXB; ++b)
                if (b < (*fr)[f].size())
                    vp_assert((*fr)[f][b] == m->bytes[f][b], "C10: same frame bytes as a fresh encoder (counter offset aside)");
}

// C10, literally: the same batch with the same configuration on a fresh encoder and on one that has made an earlier call
// with another configuration (PMIN/PMAX, other message type, other version). Both sides are the real encoder, so the
// batch's configuration may be anything, including minimum > maximum (where the frame model above does not apply).
#ifndef PMIN
#define PMIN 0
#endif
#define FBYTES ((MAXB > MINB ? MAXB : MINB) + 8)
VP_HARNESS(h_enc_diff)
{
    Src* s = &g_src;
    drawSrc(*s);
    Packet* pk[3] = {nullptr, nullptr, nullptr};
    for (unsigned i = 0; i < K; ++i)
        pk[i] = mkPacket(*s, i);
    Encoder* used = new Encoder;
    used->setDeviceId(s->deviceId);
    used->setStreamId(s->streamId);
    {
        static uint8_t junk[LMAX];
        vp_bytes(junk, PL0);
        Payload pl(PayloadType(static_cast<CmpHeader::MessageType>(PT0), RT), junk, PL0);
        Packet* p0 = new Packet;
        p0->setPayload(pl);
        p0->setVersion(static_cast<uint8_t>(s->version ^ 0x5A));
        p0->setTimestamp(vp_u64());
        DataContext c0{PMIN, PMAX};
        Frames* f0 = new Frames(used->encode(*p0, c0));
        vp_assert(f0->size() >= 1, "C10: the earlier call produced frames");
    }
    const uint16_t off = used->getSequenceCounter();
    Encoder* fresh = new Encoder;
    fresh->setDeviceId(s->deviceId);
    fresh->setStreamId(s->streamId);
    Frames* a = doEncode(*fresh, pk);
    Frames* b = doEncode(*used, pk);
    vp_assert(a->size() == b->size(), "C10: same number of frames as a fresh encoder");
    for (unsigned f = 0; f < MAXF; ++f)
        if (f < a->size() && f < b->size())
        {
            vp_assert((*a)[f].size() == (*b)[f].size(), "C10: same frame sizes as a fresh encoder");
            if ((*a)[f].size() != (*b)[f].size() || (*a)[f].size() < 8)
                continue;
            const uint16_t ca = vp_be16((*a)[f].data() + 6), cb = vp_be16((*b)[f].data() + 6);
            vp_assert(static_cast<uint16_t>(ca + off) == cb, "C10: sequence counters differ from a fresh encoder's by a constant offset");
            for (unsigned i = 0; i < FBYTES; ++i)
                if (i < (*a)[f].size() && i != 6 && i != 7)
                    vp_assert((*a)[f][i] == (*b)[f][i], "C10: same frame bytes as a fresh encoder (counter offset aside)");
        }
}

// Large frames (max up to 65559, payloads up to 65535 bytes): sizes and tiling only. Payload contents are never read by the
// harness byte by byte (a 64 KiB loop per assertion is out of reach); they are uninitialised heap memory, i.e.
// nondeterministic for the solver and the allocator's fill pattern in the native replay. One symbolic index samples the
// "every payload byte appears in order" clause.
VP_HARNESS(h_enc_big)
{
    Src* s = &g_src;
    s->version = vp_u8();
    s->deviceId = vp_u16();
    s->streamId = vp_u8();
    s->start = vp_u16();
    Packet* pk[3] = {nullptr, nullptr, nullptr};
    const uint8_t* src[3] = {nullptr, nullptr, nullptr};
    for (unsigned i = 0; i < K; ++i)
    {
        uint8_t* d = static_cast<uint8_t*>(operator new(LEN[i] ? LEN[i] : 1));
        src[i] = d;
        Payload pl(PayloadType(static_cast<CmpHeader::MessageType>(TYP[i]), RT), d, LEN[i]);
        Packet* p = new Packet;
        p->setPayload(pl);
        p->setVersion(s->version);
        p->setTimestamp(vp_u64());
        pk[i] = p;
    }
    Encoder* e = new Encoder;
    e->setDeviceId(s->deviceId);
    e->setStreamId(s->streamId);
    VerifAccess::seq(*e) = s->start;
    Frames* fr = doEncode(*e, pk);
    size_t total = 0, want = 0;
    for (unsigned i = 0; i < K; ++i)
        want += LEN[i];
    vp_assert(fr->size() <= MAXF, "C07: frame count within the model bound");
    const size_t ix = vp_u16();  // sampled byte of packet 0
#ifdef HUGE
    vp_assume(ix < HUGE);  // copies transfer only a prefix in this mode (rt/vp_rt.h VP_MEM_PREFIX): only the head of packet 0 is comparable
#endif
    bool seen = LEN[0] == 0 || ix >= LEN[0];
    size_t at0 = 0;              // bytes of packet 0 placed so far (packet 0 comes first on the wire)
    for (unsigned f = 0; f < MAXF; ++f)
        if (f < fr->size())
        {
            const std::vector<uint8_t>& fb = (*fr)[f];
            vp_assert(fb.size() <= MAXB, "C07: frame no longer than the maximum");
            vp_assert(fb.size() >= MINB && fb.size() >= 8 + 16, "C07: frame no shorter than the minimum and holds at least one message");
            vp_assert(fb[1] == 0 && vp_be16(fb.data() + 2) == s->deviceId && fb[5] == s->streamId && fb[0] == s->version, "C09: frame header carries version, device id and stream id");
            vp_assert(vp_be16(fb.data() + 6) == static_cast<uint16_t>(s->start + 1 + f), "C09: consecutive sequence counters");
            size_t pos = 8;
#if defined(HUGE) && MINB > 0
            const unsigned mmax = 1;  // prefix-copy mode: padding beyond the first 48 bytes of a fill is not modelled as zero, so it is not parsed (K = 1 shapes)
#else
            const unsigned mmax = 3;
#endif
            for (unsigned m = 0; m < mmax; ++m)
                if (pos + 16 <= fb.size() && !(MINB > 0 && m > 0 && vp_be16(fb.data() + pos + 14) == 0))
                {
                    const size_t len = vp_be16(fb.data() + pos + 14);
                    vp_assert(pos + 16 + len <= fb.size(), "C07: every message lies completely inside its frame");
                    if (pos + 16 + len > fb.size())
                        return;
                    if (at0 < LEN[0] && !seen && ix >= at0 && ix < at0 + len)
                    {
                        vp_assert(fb[pos + 16 + (ix - at0)] == src[0][ix], "C07: every payload byte appears once and in order (sampled index)");
                        seen = true;
                    }
                    if (at0 < LEN[0])
                        at0 += len;
                    total += len;
                    pos += 16 + len;
                }
            if (MINB == 0)
                vp_assert(pos == fb.size(), "C07: messages tile the frame exactly (no padding without a minimum)");
        }
    vp_assert(total == want, "C07: declared payload lengths add up to the batch's payload bytes");
    vp_assert(seen, "C07: the sampled payload byte was placed");
    vp_assert(e->getSequenceCounter() == static_cast<uint16_t>(s->start + fr->size()), "C09: reported counter equals the last frame's");
}

// C09 without the frame model, so that batches outside C07's domain (packets with an empty payload) are covered too: two
// consecutive encode calls of the batch; every emitted frame carries ids and version, counters run consecutively over both
// calls, and the reported counter is the last emitted frame's.
VP_HARNESS(h_enc_counters)
{
    Src* s = &g_src;
    drawSrc(*s);
    Packet* pk[3] = {nullptr, nullptr, nullptr};
    for (unsigned i = 0; i < K; ++i)
        pk[i] = mkPacket(*s, i);
    Encoder* e = new Encoder;
    e->setDeviceId(s->deviceId);
    e->setStreamId(s->streamId);
    VerifAccess::seq(*e) = s->start;
    uint16_t last = s->start;
    // messages are told apart by their (distinct, non-zero) timestamps: every message or segment of packet i must sit in a
    // frame whose header announces packet i's message type
    for (unsigned i = 0; i < K; ++i)
    {
        vp_assume(s->ts[i] != 0);
        for (unsigned j = 0; j < i; ++j)
            vp_assume(s->ts[i] != s->ts[j]);
    }
    for (int call = 0; call < 2; ++call)
    {
        Frames* fr = doEncode(*e, pk);
        vp_assert(fr->size() <= MAXF, "C09: frame count within the harness bound");
        for (unsigned f = 0; f < MAXF; ++f)
            if (f < fr->size())
            {
                const std::vector<uint8_t>& fb = (*fr)[f];
                vp_assert(fb.size() >= 8, "C09: every emitted frame holds a frame header");
                if (fb.size() < 8)
                    return;
                vp_assert(fb[0] == s->version && vp_be16(fb.data() + 2) == s->deviceId && fb[5] == s->streamId, "C09: frame header carries the batch's version and the configured device id and stream id");
                vp_assert(vp_be16(fb.data() + 6) == static_cast<uint16_t>(last + 1), "C09: sequence counter is one greater (mod 65536) than that of the previously emitted frame");
                last = vp_be16(fb.data() + 6);
                size_t pos = 8;
                for (unsigned m = 0; m < 4; ++m)
                    if (pos + 16 <= fb.size() && vp_be64(fb.data() + pos) != 0)
                    {
                        const uint64_t ts = vp_be64(fb.data() + pos);
                        for (unsigned i = 0; i < K; ++i)
                            if (LEN[i] > 0 && ts == s->ts[i])
                                vp_assert(fb[4] == TYP[i], "C09: frame header carries the message type of its messages");
                        pos += 16 + vp_be16(fb.data() + pos + 14);
                    }
            }
        vp_assert(e->getSequenceCounter() == last, "C09: the reported counter equals that of the last frame emitted");
    }
}
