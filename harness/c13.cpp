// C13: payload builders store data faithfully and produce self-valid payloads; the raw bytes depend only on the final
// logical content. Lengths are concrete shape parameters, data and header field values are symbolic.
//   CLS: 1 CAN, 2 CAN-FD, 3 LIN, 4 Ethernet, 5 analog, 6 capture-module status, 7 interface status
//   N  : final data length (CLS 1-5);  PN: data length of the earlier setData on the same object (-1: none)
//   CLS 6: S0..S3 final string lengths, V final vendor-data length, P0..P3 / PV earlier lengths (PV = -1: none)
//   CLS 7: N = stream-id count, V = vendor length, PN / PV earlier (PN = -1: none)
#include <asam_cmp/analog_payload.h>
#include <asam_cmp/can_fd_payload.h>
#include <asam_cmp/can_payload.h>
#include <asam_cmp/capture_module_payload.h>
#include <asam_cmp/ethernet_payload.h>
#include <asam_cmp/interface_payload.h>
#include <asam_cmp/lin_payload.h>
#include <asam_cmp/packet.h>
#include <new>
#include <string_view>
#include "verif.h"
using namespace ASAM::CMP;

#ifndef CLS
#define CLS 1
#endif
#ifndef N
#define N 8
#endif
#ifndef PN
#define PN -1
#endif
#ifndef V
#define V 0
#endif
#ifndef PV
#define PV -1
#endif
#ifndef S0
#define S0 1
#endif
#ifndef S1
#define S1 2
#endif
#ifndef S2
#define S2 0
#endif
#ifndef S3
#define S3 3
#endif
#ifndef P0
#define P0 0
#endif
#ifndef P1
#define P1 0
#endif
#ifndef P2
#define P2 0
#endif
#ifndef P3
#define P3 0
#endif
#ifndef PRAW
#define PRAW 0   // 1: the earlier state is an object constructed from arbitrary valid raw bytes (as the decoder does), not a built one
#endif
#ifndef NULLP
#define NULLP 0  // 1: an empty final data block is passed as (nullptr, 0)
#endif
#ifndef DMAX
#define DMAX 72
#endif
#ifndef MSGMAX
#define MSGMAX 160   // largest built payload the self-validation path copies
#endif
#define DATA_PTR ((NULLP && N == 0) ? static_cast<const uint8_t*>(nullptr) : g_data)

static uint8_t g_data[DMAX], g_prev[DMAX], g_vend[DMAX], g_pvend[DMAX];

// the payload must be accepted by its own validator and by the message-level path (Packet built from the bytes)
template <class T>
static void selfValid(const T& p, uint8_t msgType, uint8_t rawType)
{
    vp_assert(T::isValidPayload(p.getRawPayload(), p.getLength()), "C13: the class's own validity check accepts the built payload");
    static uint8_t msg[16 + MSGMAX];
    const size_t len = p.getLength();
    vp_assert(len <= MSGMAX, "harness bound");
    for (unsigned i = 0; i < 16; ++i)
        msg[i] = 0;
    msg[13] = rawType;
    vp_put16(msg + 14, static_cast<uint16_t>(len));
    for (unsigned i = 0; i < MSGMAX; ++i)
        if (i < len)
            msg[16 + i] = p.getRawPayload()[i];
    vp_assert(Packet::isValidPacket(msg, 16 + len), "C13: the message-level validity check accepts a message carrying the built payload");
    Packet* pk = new Packet(static_cast<CmpHeader::MessageType>(msgType), msg, 16 + len);
    vp_assert(pk->isValid(), "C13: a packet built from the payload's bytes is valid");
    vp_assert(pk->getPayload().getType() == p.getType(), "C13: a packet built from the payload's bytes has the payload's type");
}

static bool sameRaw(const Payload& a, const Payload& b)
{
    if (a.getLength() != b.getLength())
        return false;
    bool eq = true;
    for (unsigned i = 0; i < MSGMAX; ++i)
        if (i < a.getLength())
            eq = eq && a.getRawPayload()[i] == b.getRawPayload()[i];
    return eq;
}

#if CLS == 1 || CLS == 2
#if CLS == 1
using CanT = CanPayload;
#else
using CanT = CanFdPayload;
#endif
static const int DLC_OF[65] = {0, 1, 2, 3, 4, 5, 6, 7, 8, -1, -1, -1, 9, -1, -1, -1, 10, -1, -1, -1, 11, -1, -1, -1, 12, -1, -1, -1, -1, -1, -1, -1, 13,
                               -1, -1, -1, -1, -1, -1, -1, -1, -1, -1, -1, -1, -1, -1, -1, 14, -1, -1, -1, -1, -1, -1, -1, -1, -1, -1, -1, -1, -1, -1, -1, 15};
VP_HARNESS(h_build)
{
    vp_bytes(g_data, N);
    const uint32_t id = vp_u32() & 0x1FFFFFFF;
    const uint16_t flags = vp_u16() & 0xFC00;  // no bus-error flags: the result has to be a valid message
    const bool ide = vp_u8() & 1, crcSup = vp_u8() & 1;
#if PN >= 0 && PRAW
    // earlier state: any raw payload the class's validator accepts (dlc / data length / flags need not be consistent)
    static uint8_t rawPrev[16 + DMAX];
    vp_bytes(rawPrev, 16 + PN);
    vp_assume(CanT::isValidPayload(rawPrev, 16 + PN));
    CanT* a = new CanT(rawPrev, 16 + PN);
#else
    CanT* a = new CanT;
#if PN >= 0
    vp_bytes(g_prev, PN);
    a->setId(vp_u32() & 0x1FFFFFFF);
    a->setData(g_prev, PN);
#endif
#endif
    a->setId(id);
    a->setFlags(flags);
    a->setIde(ide);
    a->setCrcSupport(crcSup);
    a->setData(DATA_PTR, N);
    vp_assert(a->getDataLength() == N, "C13: data length getter returns the supplied length");
    vp_assert(a->getLength() == 16 + N, "C13: payload length is header plus data");
    if (N > 0)
    {
        vp_assert(a->getData() != nullptr, "C13: data pointer is set");
        for (unsigned i = 0; i < N; ++i)
            vp_assert(a->getData()[i] == g_data[i], "C13: data getter returns exactly the supplied bytes");
    }
    if (N <= 64 && DLC_OF[N] >= 0)
        vp_assert(a->getDlc() == DLC_OF[N], "C13: CAN DLC code matches the data length (ISO 11898-1 table)");
    vp_assert(a->getId() == id && a->getFlags() == flags && a->getIde() == ide && a->getCrcSupport() == crcSup,
              "C13: header fields set earlier are preserved by setData");
    vp_assert(a->getId() == id && a->getFlags() == flags && a->getIde() == ide && a->getCrcSupport() == crcSup,
              "C11: writing the data block changes no header field");
#if PN >= 0 && PRAW
    vp_assert(a->getRawPayload()[15] == N, "C13: the data length field matches the data length");
    return;  // fields the harness did not set (rtr, crc, error position ...) legitimately survive from the raw state: no fresh-object twin
#endif
    selfValid(*a, 1, CLS == 1 ? 1 : 2);
    CanT* b = new CanT;
    b->setId(id);
    b->setFlags(flags);
    b->setIde(ide);
    b->setCrcSupport(crcSup);
    b->setData(g_data, N);
    vp_assert(sameRaw(*a, *b), "C13: raw bytes depend only on the final logical content, not on what the object held before");
}

// the DLC table for every 8-bit length (leaf, no allocation)
struct DlcProbe : public CanPayload
{
    using CanPayloadBase::encodeDlc;
};
VP_HARNESS(h_dlc)
{
    DlcProbe* p = new DlcProbe;
    const uint8_t n = vp_u8();
    const uint8_t d = p->encodeDlc(n);
    if (n <= 8)
        vp_assert(d == n, "C13: DLC equals the length for 0..8 bytes");
    vp_assert(!(n == 12) || d == 9, "C13: 12 bytes -> DLC 9");
    vp_assert(!(n == 16) || d == 10, "C13: 16 bytes -> DLC 10");
    vp_assert(!(n == 20) || d == 11, "C13: 20 bytes -> DLC 11");
    vp_assert(!(n == 24) || d == 12, "C13: 24 bytes -> DLC 12");
    vp_assert(!(n == 32) || d == 13, "C13: 32 bytes -> DLC 13");
    vp_assert(!(n == 48) || d == 14, "C13: 48 bytes -> DLC 14");
    vp_assert(!(n == 64) || d == 15, "C13: 64 bytes -> DLC 15");
    vp_assert(d <= 15, "C13: DLC is a 4-bit code");
}
#endif

#if CLS == 3
VP_HARNESS(h_build)
{
    vp_bytes(g_data, N);
    const uint8_t id = vp_u8() & 0x3F, par = vp_u8() & 3, sum = vp_u8();
    const uint16_t flags = vp_u16();
#if PN >= 0 && PRAW
    static uint8_t rawPrev[8 + DMAX];
    vp_bytes(rawPrev, 8 + PN);
    vp_assume(LinPayload::isValidPayload(rawPrev, 8 + PN));
    LinPayload* a = new LinPayload(rawPrev, 8 + PN);
#else
    LinPayload* a = new LinPayload;
#if PN >= 0
    vp_bytes(g_prev, PN);
    a->setData(g_prev, PN);
#endif
#endif
    a->setLinId(id);
    a->setParityBits(par);
    a->setChecksum(sum);
    a->setFlags(flags);
    a->setData(DATA_PTR, N);
    vp_assert(a->getDataLength() == N && a->getLength() == 8 + N, "C13: length getters return the supplied length");
    for (unsigned i = 0; i < N; ++i)
        vp_assert(a->getData()[i] == g_data[i], "C13: data getter returns exactly the supplied bytes");
    vp_assert(a->getLinId() == id && a->getParityBits() == par && a->getChecksum() == sum && a->getFlags() == flags,
              "C13: header fields set earlier are preserved by setData");
    vp_assert(a->getLinId() == id && a->getParityBits() == par && a->getChecksum() == sum && a->getFlags() == flags,
              "C11: writing the data block changes no header field");
#if PN >= 0 && PRAW
    return;
#endif
    selfValid(*a, 1, 3);
    LinPayload* b = new LinPayload;
    b->setLinId(id);
    b->setParityBits(par);
    b->setChecksum(sum);
    b->setFlags(flags);
    b->setData(g_data, N);
    vp_assert(sameRaw(*a, *b), "C13: raw bytes depend only on the final logical content, not on what the object held before");
}
#endif

#if CLS == 4
VP_HARNESS(h_build)
{
    vp_bytes(g_data, N);
    const uint16_t flags = vp_u16() & 0xFF84;  // no error flags
    EthernetPayload* a = new EthernetPayload;
#if PN >= 0
    vp_bytes(g_prev, PN);
    a->setData(g_prev, PN);
#endif
    a->setFlags(flags);
    a->setData(DATA_PTR, N);
    vp_assert(a->getDataLength() == N && a->getLength() == 6 + N, "C13: length getters return the supplied length");
    for (unsigned i = 0; i < N; ++i)
        vp_assert(a->getData()[i] == g_data[i], "C13: data getter returns exactly the supplied bytes");
    vp_assert(a->getFlags() == flags, "C13: header fields set earlier are preserved by setData");
    vp_assert(a->getFlags() == flags, "C11: writing the data block changes no header field");
    selfValid(*a, 1, 8);
    EthernetPayload* b = new EthernetPayload;
    b->setFlags(flags);
    b->setData(g_data, N);
    vp_assert(sameRaw(*a, *b), "C13: raw bytes depend only on the final logical content, not on what the object held before");
}
#endif

#if CLS == 5
VP_HARNESS(h_build)
{
    vp_bytes(g_data, N);
    const bool i32 = vp_u8() & 1;
    const uint8_t unit = vp_u8();
    AnalogPayload* a = new AnalogPayload;
#if PN >= 0
    vp_bytes(g_prev, PN);
    a->setData(g_prev, PN);
#endif
    a->setSampleDt(i32 ? AnalogPayload::SampleDt::aInt32 : AnalogPayload::SampleDt::aInt16);
    a->setUnit(static_cast<AnalogPayload::Unit>(unit));
    a->setData(DATA_PTR, N);
    vp_assert(a->getLength() == 16 + N, "C13: payload length is header plus data");
    vp_assert(a->getSamplesCount() == N / (i32 ? 4 : 2), "C13: sample count matches the data length");
    if (a->getSamplesCount() > 0)
        for (unsigned i = 0; i < N; ++i)
            vp_assert(a->getData()[i] == g_data[i], "C13: data getter returns exactly the supplied bytes");
    vp_assert(a->getSampleDt() == (i32 ? AnalogPayload::SampleDt::aInt32 : AnalogPayload::SampleDt::aInt16) && static_cast<uint8_t>(a->getUnit()) == unit,
              "C13: header fields set earlier are preserved by setData");
    vp_assert(a->getSampleDt() == (i32 ? AnalogPayload::SampleDt::aInt32 : AnalogPayload::SampleDt::aInt16) && static_cast<uint8_t>(a->getUnit()) == unit,
              "C11: writing the data block changes no header field");
    selfValid(*a, 1, 7);
    AnalogPayload* b = new AnalogPayload;
    b->setSampleDt(i32 ? AnalogPayload::SampleDt::aInt32 : AnalogPayload::SampleDt::aInt16);
    b->setUnit(static_cast<AnalogPayload::Unit>(unit));
    b->setData(g_data, N);
    vp_assert(sameRaw(*a, *b), "C13: raw bytes depend only on the final logical content, not on what the object held before");
}
#endif

#if CLS == 6
// every source string is its own exact-size heap object: a builder that reads past the end of a string_view (terminator
// or alignment byte taken from the caller's memory instead of being written) is an out-of-bounds read here
static char* g_str[4];
static char* g_pstr[4];
static const unsigned SL[4] = {S0, S1, S2, S3};
static const unsigned PL[4] = {P0, P1, P2, P3};
static void drawStr(char** dst, const unsigned* len)
{
    for (int k = 0; k < 4; ++k)
    {
        dst[k] = static_cast<char*>(operator new(len[k] ? len[k] : 1));
        for (unsigned i = 0; i < len[k]; ++i)
        {
            dst[k][i] = static_cast<char>(vp_u8());
            vp_assume(dst[k][i] != 0);
        }
    }
}
static bool svEq(std::string_view v, const char* s, unsigned n)
{
    if (v.size() != n)
        return false;
    bool eq = true;
    for (unsigned i = 0; i < 8; ++i)
        if (i < n)
            eq = eq && v[i] == s[i];
    return eq;
}
VP_HARNESS(h_build)
{
    drawStr(g_str, SL);
    vp_bytes(g_vend, V);
    const uint64_t uptime = vp_u64();
    const uint8_t gptp = vp_u8();
    std::vector<uint8_t>* vd = new std::vector<uint8_t>(g_vend, g_vend + V);
    CaptureModulePayload* a = new CaptureModulePayload;
#if PV >= 0
    drawStr(g_pstr, PL);
    vp_bytes(g_pvend, PV);
    std::vector<uint8_t>* pvd = new std::vector<uint8_t>(g_pvend, g_pvend + PV);
    a->setData(std::string_view(g_pstr[0], P0), std::string_view(g_pstr[1], P1), std::string_view(g_pstr[2], P2), std::string_view(g_pstr[3], P3), *pvd);
#endif
    a->setUptime(uptime);
    a->setGptpFlags(gptp);
    a->setData(std::string_view(g_str[0], S0), std::string_view(g_str[1], S1), std::string_view(g_str[2], S2), std::string_view(g_str[3], S3), *vd);
    vp_assert(svEq(a->getDeviceDescription(), g_str[0], S0), "C13: device description getter returns the supplied string");
    vp_assert(svEq(a->getSerialNumber(), g_str[1], S1), "C13: serial number getter returns the supplied string");
    vp_assert(svEq(a->getHardwareVersion(), g_str[2], S2), "C13: hardware version getter returns the supplied string");
    vp_assert(svEq(a->getSoftwareVersion(), g_str[3], S3), "C13: software version getter returns the supplied string");
    vp_assert(a->getVendorDataLength() == V, "C13: vendor data length getter returns the supplied length");
    for (unsigned i = 0; i < V; ++i)
        vp_assert(a->getVendorData()[i] == g_vend[i], "C13: vendor data getter returns the supplied bytes");
    vp_assert(a->getUptime() == uptime && a->getGptpFlags() == gptp, "C13: header fields set earlier are preserved by setData");
    vp_assert(a->getUptime() == uptime && a->getGptpFlags() == gptp, "C11: writing the data block changes no header field");
    // wire form: 16-bit length (string + NUL, rounded up to even), the string, NUL and zero padding
    const uint8_t* raw = a->getRawPayload();
    unsigned pos = 26;
    for (int k = 0; k < 4; ++k)
    {
        const unsigned fl = (SL[k] + 1 + 1) & ~1u;
        vp_assert(vp_be16(raw + pos) == fl, "C13: string length field counts the terminating NUL and is rounded up to even");
        {
            const std::string_view sv = k == 0 ? a->getDeviceDescription() : k == 1 ? a->getSerialNumber() : k == 2 ? a->getHardwareVersion() : a->getSoftwareVersion();
            vp_assert(sv.data() == reinterpret_cast<const char*>(raw + pos + 2), "C12: a string field is read from the bytes behind its big-endian 16-bit length");
        }
        for (unsigned i = 0; i < 8; ++i)
            if (i < SL[k])
                vp_assert(raw[pos + 2 + i] == static_cast<uint8_t>(g_str[k][i]), "C13: string bytes stored in order");
        for (unsigned i = SL[k]; i < fl; ++i)
        {
            vp_assert(raw[pos + 2 + i] == 0, "C13: strings are NUL-terminated and zero-padded to even length");
            vp_assert(raw[pos + 2 + i] == 0, "C12: the reserved terminator / alignment bytes behind a string are zero whatever the object held before");
        }
        pos += 2 + fl;
    }
    vp_assert(vp_be16(raw + pos) == V, "C13: vendor data length field");
    vp_assert(a->getVendorDataLength() == vp_be16(raw + pos), "C12: the vendor data length is read back big-endian from the two bytes that hold it");
    vp_assert(a->getLength() == pos + 2 + V, "C13: payload ends after the vendor data");
    selfValid(*a, 3, 1);
    CaptureModulePayload* b = new CaptureModulePayload;
    b->setUptime(uptime);
    b->setGptpFlags(gptp);
    b->setData(std::string_view(g_str[0], S0), std::string_view(g_str[1], S1), std::string_view(g_str[2], S2), std::string_view(g_str[3], S3), *vd);
    vp_assert(sameRaw(*a, *b), "C13: raw bytes depend only on the final logical content, not on what the object held before");
}
#endif

#if CLS == 7
VP_HARNESS(h_build)
{
    vp_bytes(g_data, N);
    vp_bytes(g_vend, V);
    const uint32_t ifId = vp_u32(), rx = vp_u32();
    InterfacePayload* a = new InterfacePayload;
#if PN >= 0
    vp_bytes(g_prev, PN);
    vp_bytes(g_pvend, PV > 0 ? PV : 0);
    a->setData(g_prev, PN, g_pvend, PV > 0 ? PV : 0);
#endif
    a->setInterfaceId(ifId);
    a->setMsgTotalRx(rx);
    a->setData(g_data, N, g_vend, V);
    vp_assert(a->getStreamIdsCount() == N, "C13: stream-id count getter returns the supplied count");
    for (unsigned i = 0; i < N; ++i)
        vp_assert(a->getStreamIds()[i] == g_data[i], "C13: stream-id getter returns the supplied ids");
    vp_assert(a->getVendorDataLength() == V, "C13: vendor data length getter returns the supplied length");
    for (unsigned i = 0; i < V; ++i)
        vp_assert(a->getVendorData()[i] == g_vend[i], "C13: vendor data getter returns the supplied bytes");
    vp_assert(a->getInterfaceId() == ifId && a->getMsgTotalRx() == rx, "C13: header fields set earlier are preserved by setData");
    vp_assert(a->getInterfaceId() == ifId && a->getMsgTotalRx() == rx, "C11: writing the data block changes no header field");
    const uint8_t* raw = a->getRawPayload();
    const unsigned padded = (N + 1) & ~1u;
    vp_assert(vp_be16(raw + 36) == N, "C13: stream-id count field");
    if (N % 2)
    {
        vp_assert(raw[38 + N] == 0, "C13: the stream-id list is zero-padded to even length");
        vp_assert(raw[38 + N] == 0, "C12: the reserved pad byte behind an odd stream-id list is zero whatever the object held before");
    }
    vp_assert(vp_be16(raw + 38 + padded) == V, "C13: vendor data length field follows the padded stream-id list");
    vp_assert(a->getLength() == 38 + padded + 2 + V, "C13: payload ends after the vendor data");
    selfValid(*a, 3, 2);
    InterfacePayload* b = new InterfacePayload;
    b->setInterfaceId(ifId);
    b->setMsgTotalRx(rx);
    b->setData(g_data, N, g_vend, V);
    vp_assert(sameRaw(*a, *b), "C13: raw bytes depend only on the final logical content, not on what the object held before");
}
#endif
