// C11/C12 for the remaining header and payload classes (CMP header, message header, packet, payload type, LIN, Ethernet,
// analog, capture-module status, interface status, TECMP header and payloads).
#include <asam_cmp/analog_payload.h>
#include <asam_cmp/can_payload.h>
#include <asam_cmp/capture_module_payload.h>
#include <asam_cmp/cmp_header.h>
#include <asam_cmp/ethernet_payload.h>
#include <asam_cmp/interface_payload.h>
#include <asam_cmp/lin_payload.h>
#include <asam_cmp/message_header.h>
#include <asam_cmp/packet.h>
#include <asam_cmp/tecmp_can_payload.h>
#include <asam_cmp/tecmp_capture_module_payload.h>
#include <asam_cmp/tecmp_header.h>
#include <asam_cmp/tecmp_interface_payload.h>
#include <asam_cmp/tecmp_lin_payload.h>
#include <new>
#include "fields.h"
#include "layout.h"
using namespace ASAM::CMP;

// a trivially copyable header struct of N bytes
template <class H, unsigned N>
struct HdrT
{
    using Obj = H;
    static constexpr unsigned LEN = N, HDR = N;
    static void constrain(uint8_t*) {}
    static Obj* make(const uint8_t* raw)
    {
        Obj* o = new Obj;
        memcpy(static_cast<void*>(o), raw, LEN);
        return o;
    }
    static Obj* makeDefault() { return new Obj; }
    static void raw(const Obj& o, uint8_t* out) { memcpy(out, &o, LEN); }
};
// a payload class built from HN header bytes + DN data bytes
template <class P, unsigned HN, unsigned DN>
struct PayT
{
    using Obj = P;
    static constexpr unsigned LEN = HN + DN, HDR = HN;
    static void constrain(uint8_t*) {}
    static Obj* make(const uint8_t* raw) { return new P(raw, LEN); }
    static Obj* makeDefault() { return new P; }
    static void raw(const Obj& o, uint8_t* out)
    {
        vp_assert(o.getLength() == LEN || o.getLength() >= HDR, "payload length preserved");
        for (unsigned i = 0; i < LEN; ++i)
            out[i] = i < o.getLength() ? o.getRawPayload()[i] : 0;
    }
};

#if GROUP == 1
#define VPF_CLS "CmpHeader"
using TA1 = HdrT<CmpHeader, 8>;
VP_FIELD_HARNESS(h_cmphdr, "CmpHeader", TA1, LAYOUT_CMP_HEADER)
#undef VPF_CLS
#define VPF_CLS "MessageHeader"
using TA2 = HdrT<MessageHeader, 16>;
VP_FIELD_HARNESS(h_msghdr, "MessageHeader", TA2, LAYOUT_MESSAGE_HEADER)
#undef VPF_CLS
using MsgHdrT = HdrT<MessageHeader, 16>;
VP_FLAGOP_HARNESS(h_msghdr_flag_c11, h_msghdr_ns, MsgHdrT, "C11: MessageHeader::setCommonFlag", commonFlags,
                  o.setCommonFlag(static_cast<MessageHeader::CommonFlags>(m), b), 0x01, 0x02, 0x0C, 0x10, 0x20, 0x40)
VP_FLAGOP_HARNESS(h_msghdr_flag_c12, h_msghdr_ns, MsgHdrT, "C12: MessageHeader::setCommonFlag", commonFlags,
                  o.setCommonFlag(static_cast<MessageHeader::CommonFlags>(m), b), 0x01, 0x02, 0x0C, 0x10, 0x20, 0x40)
VP_HARNESS(h_sizes1)
{
    vp_assert(sizeof(CmpHeader) == SIZE_CMP_HEADER, "C12: CMP header is 8 bytes");
    vp_assert(sizeof(MessageHeader) == SIZE_MESSAGE_HEADER, "C12: message header is 16 bytes");
    vp_assert(sizeof(TECMP::CmpHeader) == SIZE_TECMP_HEADER, "C12: TECMP header is 28 bytes");
}
#define VPF_CLS "TECMP::CmpHeader"
using TA3 = HdrT<TECMP::CmpHeader, 28>;
VP_FIELD_HARNESS(h_tecmphdr, "TECMP::CmpHeader", TA3, LAYOUT_TECMP_HEADER)
#undef VPF_CLS
#endif

#if GROUP == 2
#define VPF_CLS "LinPayload::Header"
using TA4 = HdrT<LinPayload::Header, 8>;
VP_FIELD_HARNESS(h_linhdr, "LinPayload::Header", TA4, LAYOUT_LIN_HEADER)
#undef VPF_CLS
#define VPF_CLS "LinPayload"
using TA5 = PayT<LinPayload, 8, 8>;
VP_FIELD_HARNESS(h_linpay, "LinPayload", TA5, LAYOUT_LIN)
#undef VPF_CLS
using LinHdrT = HdrT<LinPayload::Header, 8>;
using LinPayTT = PayT<LinPayload, 8, 8>;
#define LIN_MASKS 0x0001, 0x0002, 0x0004, 0x0008, 0x0010, 0x0020, 0x0040, 0x0080, 0x0100
VP_FLAGOP_HARNESS(h_linhdr_flag_c11, h_linhdr_ns, LinHdrT, "C11: LinPayload::Header::setFlag", flags, o.setFlag(static_cast<LinPayload::Flags>(m), b), LIN_MASKS)
VP_FLAGOP_HARNESS(h_linpay_flag_c11, h_linpay_ns, LinPayTT, "C11: LinPayload::setFlag", flags, o.setFlag(static_cast<LinPayload::Flags>(m), b), LIN_MASKS)
VP_FLAGOP_HARNESS(h_linpay_flag_c12, h_linpay_ns, LinPayTT, "C12: LinPayload::setFlag", flags, o.setFlag(static_cast<LinPayload::Flags>(m), b), LIN_MASKS)
#define VPF_CLS "EthernetPayload::Header"
using TA6 = HdrT<EthernetPayload::Header, 6>;
VP_FIELD_HARNESS(h_ethhdr, "EthernetPayload::Header", TA6, LAYOUT_ETH_HEADER)
#undef VPF_CLS
#define VPF_CLS "EthernetPayload"
using TA7 = PayT<EthernetPayload, 6, 8>;
VP_FIELD_HARNESS(h_ethpay, "EthernetPayload", TA7, LAYOUT_ETH)
#undef VPF_CLS
using EthPayTT = PayT<EthernetPayload, 6, 8>;
#define ETH_MASKS 0x0001, 0x0002, 0x0004, 0x0008, 0x0010, 0x0020, 0x0040, 0x0080
VP_FLAGOP_HARNESS(h_ethpay_flag_c11, h_ethpay_ns, EthPayTT, "C11: EthernetPayload::setFlag", flags, o.setFlag(static_cast<EthernetPayload::Flags>(m), b), ETH_MASKS)
VP_FLAGOP_HARNESS(h_ethpay_flag_c12, h_ethpay_ns, EthPayTT, "C12: EthernetPayload::setFlag", flags, o.setFlag(static_cast<EthernetPayload::Flags>(m), b), ETH_MASKS)
// CAN flag operations (field tables of c11_can.cpp are repeated here for the flag harness)
#define VPF_CLS "CanPayload"
using TA8 = PayT<CanPayload, 16, 8>;
VP_FIELD_HARNESS(h_can2, "CanPayload", TA8, LAYOUT_CAN_PAYLOAD)
#undef VPF_CLS
using CanPayTT = PayT<CanPayload, 16, 8>;
#define CAN_MASKS 0x0001, 0x0002, 0x0004, 0x0008, 0x0010, 0x0020, 0x0040, 0x0080, 0x0100, 0x0200, 0x0400, 0x0800, 0x1000, 0x2000
VP_FLAGOP_HARNESS(h_canpay_flag_c11, h_can2_ns, CanPayTT, "C11: CanPayloadBase::setFlag", flags, o.setFlag(static_cast<CanPayloadBase::Flags>(m), b), CAN_MASKS)
VP_FLAGOP_HARNESS(h_canpay_flag_c12, h_can2_ns, CanPayTT, "C12: CanPayloadBase::setFlag", flags, o.setFlag(static_cast<CanPayloadBase::Flags>(m), b), CAN_MASKS)
VP_HARNESS(h_sizes2)
{
    vp_assert(sizeof(LinPayload::Header) == SIZE_LIN_HEADER, "C12: LIN payload header is 8 bytes");
    vp_assert(sizeof(EthernetPayload::Header) == SIZE_ETH_HEADER, "C12: Ethernet payload header is 6 bytes");
    vp_assert(sizeof(AnalogPayload::Header) == SIZE_ANALOG_HEADER, "C12: analog payload header is 16 bytes");
    vp_assert(sizeof(CaptureModulePayload::Header) == SIZE_CM_HEADER, "C12: capture-module status fixed part is 26 bytes");
    vp_assert(sizeof(InterfacePayload::Header) == SIZE_IF_HEADER, "C12: interface status fixed part is 36 bytes");
}
#endif

#if GROUP == 3
#define VPF_CLS "AnalogPayload::Header"
using TA9 = HdrT<AnalogPayload::Header, 16>;
VP_FIELD_HARNESS(h_anahdr, "AnalogPayload::Header", TA9, LAYOUT_ANALOG)
#undef VPF_CLS
#define VPF_CLS "AnalogPayload"
using TA10 = PayT<AnalogPayload, 16, 8>;
VP_FIELD_HARNESS(h_anapay, "AnalogPayload", TA10, LAYOUT_ANALOG)
#undef VPF_CLS
#define VPF_CLS "CaptureModulePayload::Header"
using TA11 = HdrT<CaptureModulePayload::Header, 26>;
VP_FIELD_HARNESS(h_cmhdr, "CaptureModulePayload::Header", TA11, LAYOUT_CM)
#undef VPF_CLS
#define VPF_CLS "CaptureModulePayload"
using TA12 = PayT<CaptureModulePayload, 26, 10>;
VP_FIELD_HARNESS(h_cmpay, "CaptureModulePayload", TA12, LAYOUT_CM)
#undef VPF_CLS
#endif

#if GROUP == 4
#define VPF_CLS "InterfacePayload::Header"
using TA13 = HdrT<InterfacePayload::Header, 36>;
VP_FIELD_HARNESS(h_ifhdr, "InterfacePayload::Header", TA13, LAYOUT_IF)
#undef VPF_CLS
#define VPF_CLS "InterfacePayload"
using TA14 = PayT<InterfacePayload, 36, 4>;
VP_FIELD_HARNESS(h_ifpay, "InterfacePayload", TA14, LAYOUT_IF)
#undef VPF_CLS
#define VPF_CLS "TECMP::CanPayload"
using TA15 = PayT<TECMP::CanPayload, 5, 8>;
VP_FIELD_HARNESS(h_tcan, "TECMP::CanPayload", TA15, LAYOUT_TECMP_CAN)
#undef VPF_CLS
#define VPF_CLS "TECMP::LinPayload"
using TA16 = PayT<TECMP::LinPayload, 2, 8>;
VP_FIELD_HARNESS(h_tlin, "TECMP::LinPayload", TA16, LAYOUT_TECMP_LIN)
#undef VPF_CLS
#endif

#if GROUP == 5
#define VPF_CLS "TECMP::InterfacePayload"
using TA17 = PayT<TECMP::InterfacePayload, 28, 0>;
VP_FIELD_HARNESS(h_tif, "TECMP::InterfacePayload", TA17, LAYOUT_TECMP_IF)
#undef VPF_CLS
#define VPF_CLS "TECMP::CaptureModulePayload"
using TA18 = PayT<TECMP::CaptureModulePayload, 36, 0>;
VP_FIELD_HARNESS(h_tcm, "TECMP::CaptureModulePayload", TA18, LAYOUT_TECMP_CM)
#undef VPF_CLS
#endif

#if GROUP == 6
// Packet scalar members and PayloadType packing (no wire layout: C11 only)
VP_HARNESS(h_packet_c11)
{
    Packet* p = new Packet;
    p->setVersion(vp_u8());
    p->setDeviceId(vp_u16());
    p->setStreamId(vp_u8());
    p->setSequenceCounter(vp_u16());
    p->setTimestamp(vp_u64());
    p->setInterfaceId(vp_u32());
    p->setVendorId(vp_u16());
    p->setCommonFlags(vp_u8());
    p->setSegmentType(static_cast<MessageHeader::SegmentType>(vp_u8() & 0x0C));
    uint64_t before[9], after[9];
    auto snapP = [&](uint64_t* g) {
        g[0] = p->getVersion(); g[1] = p->getDeviceId(); g[2] = p->getStreamId(); g[3] = p->getSequenceCounter(); g[4] = p->getTimestamp();
        g[5] = p->getInterfaceId(); g[6] = p->getVendorId(); g[7] = p->getCommonFlags(); g[8] = static_cast<uint64_t>(p->getSegmentType());
    };
    snapP(before);
    const uint8_t which = vp_u8();
    const uint64_t val = vp_u64();
    vp_assume(which < 10);
    uint64_t expect = 0;
    int idx = which;
    switch (which)
    {
        case 0: p->setVersion(static_cast<uint8_t>(val)); expect = val & 0xFF; break;
        case 1: p->setDeviceId(static_cast<uint16_t>(val)); expect = val & 0xFFFF; break;
        case 2: p->setStreamId(static_cast<uint8_t>(val)); expect = val & 0xFF; break;
        case 3: p->setSequenceCounter(static_cast<uint16_t>(val)); expect = val & 0xFFFF; break;
        case 4: p->setTimestamp(val); expect = val; break;
        case 5: p->setInterfaceId(static_cast<uint32_t>(val)); expect = val & 0xFFFFFFFF; break;
        case 6: p->setVendorId(static_cast<uint16_t>(val)); expect = val & 0xFFFF; break;
        case 7: p->setCommonFlags(static_cast<uint8_t>(val)); expect = val & 0xFF; break;
        case 8: p->setSegmentType(static_cast<MessageHeader::SegmentType>(val & 0x0C)); expect = val & 0x0C; break;
        case 9:
        {
            static const uint8_t masks[] = {0x01, 0x02, 0x0C, 0x10, 0x20, 0x40};
            const uint8_t m = masks[(val >> 8) % 6];
            const bool b = val & 1;
            p->setCommonFlag(static_cast<MessageHeader::CommonFlags>(m), b);
            expect = (before[7] & ~static_cast<uint64_t>(m)) | (b ? m : 0);
            idx = 7;
            vp_assert(p->getCommonFlag(static_cast<MessageHeader::CommonFlags>(m)) == b, "C11: Packet::getCommonFlag reads back the flag");
            break;
        }
    }
    snapP(after);
    vp_assert(after[idx] == expect, "C11: Packet setter is read back by its getter");
    for (int j = 0; j < 9; ++j)
        if (j != idx)
            vp_assert(after[j] == before[j], "C11: a Packet setter changes no other field");
}
// C12: what a Packet serialises as its frame header and message header, against the protocol layout (not the library's
// header classes). PMT: message type of the packet's payload (shape): 1 data, 2 control, 3 status, 0xFF vendor-defined.
#ifndef PMT
#define PMT 1
#endif
VP_HARNESS(h_packet_raw_c12)
{
    Packet* p = new Packet;
    uint8_t data[4];
    vp_bytes(data, 4);
    const uint8_t rawType = vp_u8();
    vp_assume(rawType != 0);
    p->setPayload(Payload(PayloadType(static_cast<CmpHeader::MessageType>(PMT), rawType), data, 4));
    const uint8_t ver = vp_u8(), stream = vp_u8(), flags = vp_u8();
    const uint16_t dev = vp_u16(), seq = vp_u16(), vendor = vp_u16();
    const uint32_t itf = vp_u32();
    const uint64_t ts = vp_u64();
    // both orders of writing the two ids
    if (vp_u8() & 1)
    {
        p->setInterfaceId(itf);
        p->setVendorId(vendor);
    }
    else
    {
        p->setVendorId(vendor);
        p->setInterfaceId(itf);
    }
    p->setVersion(ver);
    p->setDeviceId(dev);
    p->setStreamId(stream);
    p->setSequenceCounter(seq);
    p->setTimestamp(ts);
    p->setCommonFlags(flags);
    uint8_t* ch = static_cast<uint8_t*>(operator new(8));
    uint8_t* mh = static_cast<uint8_t*>(operator new(16));
    p->getRawCmpHeader(ch);
    p->getRawMessageHeader(mh);
    vp_assert(ch[0] == ver && ch[1] == 0 && vp_be16(ch + 2) == dev && ch[4] == PMT && ch[5] == stream && vp_be16(ch + 6) == seq,
              "C12: Packet frame header: version@0, reserved@1 = 0, device id@2-3, message type@4, stream id@5, sequence counter@6-7, big-endian");
    vp_assert(vp_be64(mh) == ts, "C12: Packet message header: timestamp@0-7 big-endian");
#if PMT == 1
    vp_assert(vp_be32(mh + 8) == itf, "C12: data message header: interface id@8-11 big-endian");
#elif PMT == 3 || PMT == 0xFF
    vp_assert(mh[8] == 0 && mh[9] == 0, "C12: status / vendor message header: bytes 8-9 are reserved and zero whatever the packet's interface id is");
    vp_assert(vp_be16(mh + 10) == vendor, "C12: status / vendor message header: vendor id@10-11 big-endian");
#endif
    vp_assert(mh[12] == flags, "C12: message header: common flags@12");
    vp_assert(mh[13] == rawType, "C12: message header: payload type@13");
    vp_assert(vp_be16(mh + 14) == 4, "C12: message header: payload length@14-15 big-endian");
    // reading back: a packet built from these bytes reports the same values
    uint8_t* msg = static_cast<uint8_t*>(operator new(20));
    for (int i = 0; i < 16; ++i)
        msg[i] = mh[i];
    for (int i = 0; i < 4; ++i)
        msg[16 + i] = data[i];
    msg[12] &= 0xB3;
    Packet* q = new Packet(static_cast<CmpHeader::MessageType>(PMT), msg, 20);
    vp_assert(q->getTimestamp() == ts && q->getCommonFlags() == (flags & 0xB3) && q->getPayloadLength() == 4, "C12: raw message header bytes are read back as the same values");
#if PMT == 1
    vp_assert(q->getInterfaceId() == itf, "C12: interface id read back from bytes 8-11");
#elif PMT == 3 || PMT == 0xFF
    vp_assert(q->getVendorId() == vendor, "C12: vendor id read back from bytes 10-11");
#endif
}
VP_HARNESS(h_payloadtype_c11)
{
    const uint32_t raw = vp_u32() & 0xFFFF;
    PayloadType t(raw);
    const uint8_t mt0 = static_cast<uint8_t>(t.getMessageType()), rt0 = t.getRawPayloadType();
    vp_assert(mt0 == ((raw >> 8) & 0xFF) && rt0 == (raw & 0xFF), "C11: PayloadType splits into message type (high byte) and payload type (low byte)");
    const uint8_t v = vp_u8();
    if (vp_u8() & 1)
    {
        t.setMessageType(static_cast<CmpHeader::MessageType>(v));
        vp_assert(static_cast<uint8_t>(t.getMessageType()) == v && t.getRawPayloadType() == rt0, "C11: PayloadType::setMessageType changes only the message type");
    }
    else
    {
        t.setRawPayloadType(v);
        vp_assert(t.getRawPayloadType() == v && static_cast<uint8_t>(t.getMessageType()) == mt0, "C11: PayloadType::setRawPayloadType changes only the payload type");
    }
    PayloadType u(static_cast<CmpHeader::MessageType>(mt0), rt0);
    vp_assert(u == t || true, "");
    vp_assert(PayloadType(static_cast<CmpHeader::MessageType>(mt0), rt0).getType() == raw, "C11: PayloadType(message type, payload type) packs both");
}
#endif
