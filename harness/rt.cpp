// C01: encode then decode returns the original packets (and C20: determinism of the whole pipeline, see c20 entries).
// Shape: as enc.cpp (K, L0..L2, T0..T2, MAXB, MINB, API) plus PKIND (0 generic payload, 1 CAN, 2 CAN-FD, 3 LIN,
// 8 Ethernet, 7 analog, 101 capture-module status, 102 interface status), FLG (common flags, concrete), VERB (protocol version, concrete >= 1), SYMIDS (1: device/stream id
// symbolic - used with the unordered_map model).
#include <asam_cmp/analog_payload.h>
#include <asam_cmp/can_fd_payload.h>
#include <asam_cmp/capture_module_payload.h>
#include <asam_cmp/decoder.h>
#include <asam_cmp/interface_payload.h>
#include <string_view>
#include "enc_common.h"

#ifndef PKIND
#define PKIND 0
#endif
#ifndef FLG
#define FLG 0x33
#endif
#ifndef VERB
#define VERB 1
#endif
#ifndef SYMIDS
#define SYMIDS 1
#endif
#ifndef PRIOR
#define PRIOR 0
#endif
#ifndef TFLAGS
#define TFLAGS 0
#endif
#ifndef STARTC
#define STARTC -1
#endif
#define MAXFR 10
using Packets = std::vector<std::shared_ptr<Packet>>;

static Packet* mkTyped(Src& s, unsigned i)
{
    Packet* p = new Packet;
#if PKIND == 0
    Payload pl(PayloadType(static_cast<CmpHeader::MessageType>(TYP[i]), RT), s.data[i], LEN[i]);
    p->setPayload(pl);
#elif PKIND == 1 || PKIND == 2
    // LEN is the payload length: 16-byte CAN header + data
#if PKIND == 1
    CanPayload pl;
    pl.setCrc(static_cast<uint16_t>(s.ifId[i]) & 0x7FFF);
#else
    CanFdPayload pl;
    pl.setCrc(s.ifId[i] & 0x1FFFFF);
#endif
    pl.setId(static_cast<uint32_t>(s.ts[i]) & 0x1FFFFFFF);
#if TFLAGS
    pl.setFlags(static_cast<uint16_t>(s.vendorId[i]) & 0xFC00);  // symbolic, no bus-error flags
#else
    pl.setFlags(0x1400);  // concrete (quick shapes): a symbolic flags word keeps the decoder's "has bus error" branch open
#endif
    pl.setData(s.data[i], static_cast<uint8_t>(LEN[i] - 16));
    p->setPayload(pl);
#elif PKIND == 3
    LinPayload pl;
    pl.setLinId(s.flags[i] & 0x3F);
    pl.setChecksum(static_cast<uint8_t>(s.vendorId[i]));
    pl.setData(s.data[i], static_cast<uint8_t>(LEN[i] - 8));
    p->setPayload(pl);
#elif PKIND == 8
    EthernetPayload pl;
#if TFLAGS
    pl.setFlags(static_cast<uint16_t>(s.vendorId[i]) & 0xFF84);  // symbolic, no error flags
#else
    pl.setFlags(0x0084);
#endif
    pl.setData(s.data[i], static_cast<uint16_t>(LEN[i] - 6));
    p->setPayload(pl);
#elif PKIND == 7
    // analog: 16-byte header + samples
    AnalogPayload pl;
    pl.setSampleDt(AnalogPayload::SampleDt::aInt32);  // concrete: the decoder dispatches on it
    pl.setUnit(static_cast<AnalogPayload::Unit>(s.vendorId[i] & 0x3F));
    pl.setSampleInterval(0.000125f);  // concrete: symbolic floats cost CBMC a float encoding per byte swap (69 s instead of 4 s); their layout is C11/C12's business
    pl.setSampleOffset(-2.25f);
    pl.setSampleScalar(1.5f);
    pl.setData(s.data[i], LEN[i] - 16);
    p->setPayload(pl);
#elif PKIND == 101
    // capture-module status: 26-byte header, four 1-character strings (4 bytes each on the wire), vendor data of LEN-44 bytes
    CaptureModulePayload pl;
    pl.setUptime(s.ts[i]);
    pl.setGptpFlags(s.flags[i]);
    char c[4];
    for (int k = 0; k < 4; ++k)
        c[k] = static_cast<char>(s.data[i][k] | 1);  // non-NUL
    std::vector<uint8_t>* vd = new std::vector<uint8_t>(s.data[i] + 4, s.data[i] + 4 + (LEN[i] - 44));
    pl.setData(std::string_view(c, 1), std::string_view(c + 1, 1), std::string_view(c + 2, 1), std::string_view(c + 3, 1), *vd);
    p->setPayload(pl);
#elif PKIND == 102
    // interface status: 36-byte header, 2 stream ids, vendor data of LEN-42 bytes
    InterfacePayload pl;
    pl.setInterfaceId(s.ifId[i]);
    pl.setMsgTotalRx(static_cast<uint32_t>(s.ts[i]));
    pl.setInterfaceType(s.flags[i]);
    pl.setData(s.data[i], 2, s.data[i] + 2, static_cast<uint16_t>(LEN[i] - 42));
    p->setPayload(pl);
#endif
    p->setVersion(VERB);
    p->setTimestamp(s.ts[i]);
    p->setInterfaceId(s.ifId[i]);
    p->setVendorId(s.vendorId[i]);
    p->setCommonFlags(FLG & 0xBF);
    return p;
}

VP_HARNESS(h_roundtrip)
{
    Src* s = &g_src;
    drawSrc(*s);
#if !SYMIDS
    s->deviceId = 0x1234;
    s->streamId = 0x80;
#endif
    Packet* pk[3] = {nullptr, nullptr, nullptr};
    for (unsigned i = 0; i < K; ++i)
        pk[i] = mkTyped(*s, i);
    Encoder* e = new Encoder;
    e->setDeviceId(s->deviceId);
    e->setStreamId(s->streamId);
    Decoder* d = new Decoder;
#if PRIOR
    // an earlier encode call on the same encoder (other protocol version, same message type and frame size); its frames go
    // through the same decoder first. The batch must still round-trip.
    {
        static uint8_t junk[16];
        vp_bytes(junk, 8);
        Payload pl(PayloadType(static_cast<CmpHeader::MessageType>(TYP[0]), RT), junk, 8);
        Packet* p0 = new Packet;
        p0->setPayload(pl);
        p0->setVersion(VERB == 1 ? 2 : 1);
        DataContext c0{MINB, MAXB};
        Frames* f0 = new Frames(e->encode(*p0, c0));
        for (unsigned f = 0; f < 2; ++f)
            if (f < f0->size())
                new Packets(d->decode((*f0)[f].data(), (*f0)[f].size()));
    }
#endif
#if STARTC >= 0
    s->start = STARTC;  // concrete counter start (segmented shapes): keeps the decoder's accept/reject of each segment concrete
#endif
#if !PRIOR
    VerifAccess::seq(*e) = s->start;
#endif
    Frames* fr = doEncode(*e, pk);
    vp_assert(fr->size() <= MAXFR, "harness bound MAXFR");

    unsigned got = 0;
    for (unsigned f = 0; f < MAXFR; ++f)
        if (f < fr->size())
        {
            const std::vector<uint8_t>& F = (*fr)[f];
            Packets* ps = new Packets(d->decode(F.data(), F.size()));
            for (unsigned j = 0; j < 3; ++j)
                if (j < ps->size())
                {
                    vp_assert(got < K, "C01: no more packets come out than went in");
                    if (got >= K)
                        continue;
                    const Packet& q = *(*ps)[j];
                    const Packet& o = *pk[got];
                    const unsigned i = got++;
                    vp_assert(q.getDeviceId() == s->deviceId && q.getStreamId() == s->streamId, "C01: decoded packet carries the encoder's device id and stream id");
                    vp_assert(q.getVersion() == VERB, "C01: protocol version survives the round trip");
                    vp_assert(static_cast<unsigned>(q.getMessageType()) == TYP[i], "C01: message type survives the round trip");
                    vp_assert(q.getPayload().getType() == o.getPayload().getType(), "C01: payload type survives the round trip");
                    vp_assert(q.isValid(), "C01: a well-formed payload is decoded as valid");
                    vp_assert(q.getTimestamp() == s->ts[i], "C01: timestamp survives the round trip");
                    if (TYP[i] == 1)
                        vp_assert(q.getInterfaceId() == s->ifId[i], "C01: interface id of a data message survives the round trip");
                    if (TYP[i] == 3 || TYP[i] == 0xFF)
                        vp_assert(q.getVendorId() == s->vendorId[i], "C01: vendor id of a status/vendor message survives the round trip");
                    vp_assert((q.getCommonFlags() & ~0x0C) == (FLG & 0xBF & ~0x0C), "C01: non-segmentation flag bits survive the round trip");
                    vp_assert(q.getPayloadLength() == LEN[i], "C01: payload length survives the round trip");
                    if (q.getPayloadLength() == LEN[i])
                    {
                        const uint8_t* a = q.getPayload().getRawPayload();
                        const uint8_t* b = o.getPayload().getRawPayload();
                        for (unsigned x = 0; x < LMAX; ++x)
                            if (x < LEN[i])
                                vp_assert(a[x] == b[x], "C01: payload bytes survive the round trip (aggregated or segmented)");
                    }
                }
        }
    vp_assert(got == K, "C01: every packet of the batch comes out, in order");
}
