// C20: outputs never contain or depend on uninitialised memory. Two-run self-composition: the same symbolic inputs go
// through two independent object graphs; under CBMC every fresh allocation, uninitialised local and LLVM undef is an
// arbitrary value, so an output bit that depends on one of them can differ between the runs and the solver finds it.
// Natively (replay) the two runs use different heap fill patterns (vp_set_fill).
#include <asam_cmp/analog_payload.h>
#include <asam_cmp/can_fd_payload.h>
#include <asam_cmp/capture_module_payload.h>
#include <asam_cmp/decoder.h>
#include <asam_cmp/interface_payload.h>
#include "enc_common.h"

#ifndef NB
#define NB 32   // decode: frame bytes
#endif
#ifndef VER
#define VER 1
#endif
#ifndef DMT
#define DMT 1
#endif
#ifndef DPT
#define DPT 0xFE
#endif
#ifndef TMT
#define TMT 3   // TECMP message type
#endif
#ifndef TDT
#define TDT 2   // TECMP data type
#endif
#ifndef TDLC
#define TDLC 4
#endif
using Packets = std::vector<std::shared_ptr<Packet>>;

// ---- encoder: all frame bytes (headers, message headers, payload, padding) equal in both runs
VP_HARNESS(h_c20_encode)
{
    Src* s = &g_src;
    drawSrc(*s);
    Frames* fr[2];
    for (int run = 0; run < 2; ++run)
    {
        vp_set_fill(run ? 0x55 : 0xAA);
        Packet* pk[3] = {nullptr, nullptr, nullptr};
        for (unsigned i = 0; i < K; ++i)
            pk[i] = mkPacket(*s, i);
        Encoder* e = new Encoder;
        e->setDeviceId(s->deviceId);
        e->setStreamId(s->streamId);
        VerifAccess::seq(*e) = s->start;
        fr[run] = doEncode(*e, pk);
    }
    vp_assert(fr[0]->size() == fr[1]->size(), "C20: the number of frames does not depend on uninitialised memory");
    for (unsigned f = 0; f < MAXF; ++f)
        if (f < fr[0]->size() && f < fr[1]->size())
        {
            vp_assert((*fr[0])[f].size() == (*fr[1])[f].size(), "C20: frame sizes do not depend on uninitialised memory");
            for (unsigned b = 0; b < MAXB; ++b)
                if (b < (*fr[0])[f].size() && b < (*fr[1])[f].size())
                    vp_assert((*fr[0])[f][b] == (*fr[1])[f][b], "C20: every frame byte (incl. padding and unused id bytes) is determined by the inputs");
        }
}

static void samePackets(const Packets& a, const Packets& b, unsigned maxp, unsigned maxlen)
{
    vp_assert(a.size() == b.size(), "C20: the number of returned packets does not depend on uninitialised memory");
    for (unsigned i = 0; i < maxp; ++i)
        if (i < a.size() && i < b.size())
        {
            const Packet& p = *a[i];
            const Packet& q = *b[i];
            vp_assert(p.getVersion() == q.getVersion() && p.getDeviceId() == q.getDeviceId() && p.getStreamId() == q.getStreamId() &&
                          p.getSequenceCounter() == q.getSequenceCounter() && p.getTimestamp() == q.getTimestamp() && p.getInterfaceId() == q.getInterfaceId() &&
                          p.getVendorId() == q.getVendorId() && p.getCommonFlags() == q.getCommonFlags() && p.getSegmentType() == q.getSegmentType(),
                      "C20: every header field of a returned packet is determined by the inputs");
            vp_assert(p.isValid() == q.isValid() && p.getPayload().getType() == q.getPayload().getType(), "C20: validity and payload type are determined by the inputs");
            vp_assert(p.getPayloadLength() == q.getPayloadLength(), "C20: payload length is determined by the inputs");
            if (p.getPayloadLength() == q.getPayloadLength())
            {
                const uint8_t* x = p.getPayload().getRawPayload();
                const uint8_t* y = q.getPayload().getRawPayload();
                for (unsigned k = 0; k < maxlen; ++k)
                    if (k < p.getPayloadLength())
                        vp_assert(x[k] == y[k], "C20: every payload byte of a returned packet is determined by the inputs");
            }
        }
}

// ---- decoder: any frame, two fresh decoders
VP_HARNESS(h_c20_decode)
{
    static uint8_t frame[NB + 1];
    vp_bytes(frame, NB);
    frame[0] = VER;
#if NB >= 24
    frame[4] = DMT;    // message type, flags and payload type of the first message are concrete per shape: with symbolic
    frame[20] = 0x21;  // dispatch bytes the two decodes do not fit the budget (single-run decode with symbolic dispatch is C02/C04)
    frame[21] = DPT;
#endif
    Packets* ps[2];
    for (int run = 0; run < 2; ++run)
    {
        vp_set_fill(run ? 0x55 : 0xAA);
        uint8_t* buf = static_cast<uint8_t*>(operator new(NB));
        for (unsigned i = 0; i < NB; ++i)
            buf[i] = frame[i];
        buf[0] = VER;  // the concrete bytes are stored into the heap buffer itself (a block copy does not carry constants over)
#if NB >= 24
        buf[4] = DMT;
        buf[20] = 0x21;
        buf[21] = DPT;
        vp_put16(buf + 22, NB - 24);  // declared length: the rest of the frame (a symbolic length is a symbolic allocation size)
#endif
        Decoder* d = new Decoder;
        ps[run] = new Packets(d->decode(buf, NB));
    }
    samePackets(*ps[0], *ps[1], NB / 24 + 1, NB);
}

// ---- TECMP conversion (payloads are built from default-constructed ASAM payload objects)
VP_HARNESS(h_c20_tecmp)
{
    static uint8_t frame[NB + 1];
    vp_bytes(frame, NB);
    frame[0] = 0;
    frame[5] = TMT;
    frame[6] = static_cast<uint8_t>(TDT >> 8);
    frame[7] = static_cast<uint8_t>(TDT);
    vp_put16(frame + 24, NB - 28);
    if (TMT == 3 && NB > 32)
        frame[TDT == 4 ? 29 : 32] = TDLC;
    Packets* ps[2];
    for (int run = 0; run < 2; ++run)
    {
        vp_set_fill(run ? 0x55 : 0xAA);
        uint8_t* buf = static_cast<uint8_t*>(operator new(NB));
        for (unsigned i = 0; i < NB; ++i)
            buf[i] = frame[i];
        buf[0] = 0;
        buf[5] = TMT;
        buf[6] = static_cast<uint8_t>(TDT >> 8);
        buf[7] = static_cast<uint8_t>(TDT);
        vp_put16(buf + 24, NB - 28);
        if (TMT == 3 && NB > 32)
            buf[TDT == 4 ? 29 : 32] = TDLC;
        Decoder* d = new Decoder;
        ps[run] = new Packets(d->decode(buf, NB));
    }
    samePackets(*ps[0], *ps[1], NB / 12 + 1, 64);
}

// ---- segmented reassembly (resize-then-copy of the reassembly buffer): first + last segment, two decoders
#ifndef SL0
#define SL0 8
#endif
#ifndef SL1
#define SL1 5
#endif
#ifndef STR
#define STR 3  // trailing bytes behind the first segment
#endif
VP_HARNESS(h_c20_reassembly)
{
    static uint8_t f0[24 + SL0 + STR], f1[24 + SL1];
    vp_bytes(f0, sizeof f0);
    vp_bytes(f1, sizeof f1);
    const uint16_t cnt = vp_u16();
    f0[0] = f1[0] = 1;
    f0[2] = f1[2] = 0x12;
    f0[3] = f1[3] = 0x34;
    f0[4] = f1[4] = 1;
    f0[5] = f1[5] = 7;
    vp_put16(f0 + 6, cnt);
    vp_put16(f1 + 6, static_cast<uint16_t>(cnt + 1));
    f0[20] = 0x04;
    f1[20] = 0x0C;
    f0[21] = f1[21] = 0xFE;
    vp_put16(f0 + 22, SL0);
    vp_put16(f1 + 22, SL1);
    Packets* ps[2];
    for (int run = 0; run < 2; ++run)
    {
        vp_set_fill(run ? 0x55 : 0xAA);
        Decoder* d = new Decoder;
        Packets* first = new Packets(d->decode(f0, sizeof f0));
        vp_assert(first->size() == 0, "C20: nothing is delivered by a first segment");
        ps[run] = new Packets(d->decode(f1, sizeof f1));
    }
    samePackets(*ps[0], *ps[1], 1, SL0 + SL1 + STR);
}

// ---- payload builders: capture-module strings and interface lists (resize + partial writes)
#ifndef BS
#define BS 3
#endif
#ifndef BV
#define BV 1
#endif
#ifndef BD
#define BD 0   // > 0: also the data-block builders (CAN, CAN-FD, LIN, Ethernet, analog) with BD data bytes
#endif
VP_HARNESS(h_c20_build)
{
    static char str[4][8];
    static uint8_t vend[8], ids[8];
    for (int k = 0; k < 4; ++k)
        for (unsigned i = 0; i < BS; ++i)
        {
            str[k][i] = static_cast<char>(vp_u8());
            vp_assume(str[k][i] != 0);
        }
    vp_bytes(vend, BV);
    vp_bytes(ids, BS);
    const uint64_t up = vp_u64();
    CaptureModulePayload* cm[2];
    InterfacePayload* ip[2];
    for (int run = 0; run < 2; ++run)
    {
        vp_set_fill(run ? 0x55 : 0xAA);
        std::vector<uint8_t>* vd = new std::vector<uint8_t>(vend, vend + BV);
        cm[run] = new CaptureModulePayload;
        cm[run]->setUptime(up);
        // the caller's strings live in exact-size heap objects allocated per run: what lies behind a string is not an input
        char* hs[4];
        const unsigned hl[4] = {BS, BS ? BS - 1 : 0, 0, BS};
        for (int k = 0; k < 4; ++k)
        {
            hs[k] = static_cast<char*>(operator new(hl[k] ? hl[k] : 1));
            for (unsigned i = 0; i < hl[k]; ++i)
                hs[k][i] = str[k][i];
        }
        cm[run]->setData(std::string_view(hs[0], hl[0]), std::string_view(hs[1], hl[1]), std::string_view(hs[2], hl[2]), std::string_view(hs[3], hl[3]), *vd);
        ip[run] = new InterfacePayload;
        ip[run]->setInterfaceId(static_cast<uint32_t>(up));
        ip[run]->setData(ids, BS, vend, BV);
    }
#if BD > 0
    // data-block builders: the caller's BD bytes live in an exact-size heap object per run (what lies behind them is not an
    // input and must neither be read nor reach the payload)
    static uint8_t dat[72];
    vp_bytes(dat, BD);
    Payload* db[2][5];
    for (int run = 0; run < 2; ++run)
    {
        vp_set_fill(run ? 0x55 : 0xAA);
        uint8_t* hd = static_cast<uint8_t*>(operator new(BD));
        for (unsigned i = 0; i < BD; ++i)
            hd[i] = dat[i];
        CanPayload* c1 = new CanPayload;
        c1->setData(hd, BD);
        CanFdPayload* c2 = new CanFdPayload;
        c2->setData(hd, BD);
        LinPayload* c3 = new LinPayload;
        c3->setData(hd, BD);
        EthernetPayload* c4 = new EthernetPayload;
        c4->setData(hd, BD);
        AnalogPayload* c5 = new AnalogPayload;
        c5->setData(hd, BD);
        db[run][0] = c1; db[run][1] = c2; db[run][2] = c3; db[run][3] = c4; db[run][4] = c5;
    }
    for (int k = 0; k < 5; ++k)
    {
        vp_assert(db[0][k]->getLength() == db[1][k]->getLength(), "C20: built payload lengths are determined by the inputs");
        for (unsigned i = 0; i < 96; ++i)
            if (i < db[0][k]->getLength() && i < db[1][k]->getLength())
                vp_assert(db[0][k]->getRawPayload()[i] == db[1][k]->getRawPayload()[i], "C20: every byte of a built data payload is determined by the inputs");
    }
#endif
    vp_assert(cm[0]->getLength() == cm[1]->getLength() && ip[0]->getLength() == ip[1]->getLength(), "C20: built payload lengths are determined by the inputs");
    for (unsigned i = 0; i < 96; ++i)
    {
        if (i < cm[0]->getLength() && i < cm[1]->getLength())
            vp_assert(cm[0]->getRawPayload()[i] == cm[1]->getRawPayload()[i], "C20: every byte of a built capture-module payload is determined by the inputs");
        if (i < ip[0]->getLength() && i < ip[1]->getLength())
            vp_assert(ip[0]->getRawPayload()[i] == ip[1]->getRawPayload()[i], "C20: every byte of a built interface payload is determined by the inputs");
    }
}
