// Generic field harness for C11 (setters change exactly their field) and C12 (wire layout).
// A class is described by an X-macro list in spec/layout.h:
//   F(name, TYPE, getter-expression, setter-statement using `v`, OFF, NBYTES, MASK, SHIFT)
// meaning: the field is ((big-endian NBYTES word at byte OFF) & MASK) >> SHIFT.  OFF/NBYTES/MASK/SHIFT come
// from the protocol layout (spec/layout.h), getter/setter names from the library API.
#pragma once
#include <cstring>
#include "verif.h"

static inline uint64_t vp_rdword(const uint8_t* raw, unsigned off, unsigned nb)
{
    uint64_t w = 0;
    for (unsigned i = 0; i < nb; ++i)
        w = (w << 8) | raw[off + i];
    return w;
}

// mask of the bits of byte b (object byte index) that belong to the field
static constexpr uint8_t vp_bytemask(unsigned b, unsigned off, unsigned nb, uint64_t mask)
{
    if (b < off || b >= off + nb)
        return 0;
    return static_cast<uint8_t>(mask >> (8 * (nb - 1 - (b - off))));
}

template <class T>
static inline uint64_t vp_bits(T v)
{
    uint64_t r = 0;
    static_assert(sizeof(T) <= 8, "field too wide");
    memcpy(&r, &v, sizeof(T));
    return r;
}
template <>
inline uint64_t vp_bits<bool>(bool v)
{
    return v ? 1 : 0;
}
template <class T>
static inline T vp_from_bits(uint64_t b)
{
    T v;
    memcpy(&v, &b, sizeof(T));
    return v;
}
template <>
inline bool vp_from_bits<bool>(uint64_t b)
{
    return (b & 1) != 0;
}

#define VPF_ENUM(name, TYPE, GET, SET, OFF, NB, MASK, SHIFT) F_##name,
#define VPF_SNAP(name, TYPE, GET, SET, OFF, NB, MASK, SHIFT) g[i++] = vp_bits<TYPE>(static_cast<TYPE>(GET));
#define VPF_OFF(name, TYPE, GET, SET, OFF, NB, MASK, SHIFT) OFF,
#define VPF_NB(name, TYPE, GET, SET, OFF, NB, MASK, SHIFT) NB,
#define VPF_MASK(name, TYPE, GET, SET, OFF, NB, MASK, SHIFT) static_cast<uint64_t>(MASK),
#define VPF_SHIFT(name, TYPE, GET, SET, OFF, NB, MASK, SHIFT) SHIFT,

// value of the field as the layout prescribes it, converted to the bit pattern of TYPE
#define VPF_LAYOUT(name, TYPE, GET, SET, OFF, NB, MASK, SHIFT) \
    lay[i++] = (vp_rdword(raw, OFF, NB) & static_cast<uint64_t>(MASK)) >> (SHIFT);

#define VPF_CASE(name, TYPE, GET, SET, OFF, NB, MASK, SHIFT)                                                                    \
    case F_##name:                                                                                                              \
    {                                                                                                                           \
        const uint64_t bitsv = val & (static_cast<uint64_t>(MASK) >> (SHIFT));                                                  \
        TYPE v = vp_from_bits<TYPE>(bitsv);                                                                                     \
        SET;                                                                                                                    \
        snap(o, after);                                                                                                         \
        T::raw(o, rawAfter);                                                                                                    \
        if (MODE == 11)                                                                                                         \
        {                                                                                                                       \
            vp_assert(after[F_##name] == bitsv, VPF_CLS "." #name ": getter returns the written value");                        \
            for (int j = 0; j < NF; ++j)                                                                                        \
                if (j != F_##name && !overlap(F_##name, j))                                                                     \
                    vp_assert(after[j] == before[j], VPF_CLS "." #name ": no other field's getter changes");                    \
            if (T::LEN > T::HDR)                                                                                                \
                for (unsigned b = T::HDR; b < T::LEN; ++b)                                                                      \
                    vp_assert(rawAfter[b] == rawBefore[b], VPF_CLS "." #name ": data bytes unchanged");                         \
        }                                                                                                                       \
        else                                                                                                                    \
        {                                                                                                                       \
            vp_assert(((vp_rdword(rawAfter, OFF, NB) & static_cast<uint64_t>(MASK)) >> (SHIFT)) == bitsv,                        \
                      VPF_CLS "." #name ": written big-endian at the prescribed offset/bits");                                  \
            for (unsigned b = 0; b < T::LEN; ++b)                                                                               \
            {                                                                                                                   \
                const uint8_t m = tab.bm[F_##name][b];                                                                          \
                vp_assert((rawAfter[b] & ~m) == (rawBefore[b] & ~m), VPF_CLS "." #name ": bits outside the field unchanged");   \
            }                                                                                                                   \
        }                                                                                                                       \
        break;                                                                                                                  \
    }

// T: traits { using Obj; LEN (object bytes incl. data), HDR (header bytes); static Obj* make(const uint8_t* raw);
//             static void raw(const Obj&, uint8_t* out); static Obj* makeDefault(); }
#define VP_FIELD_HARNESS(PREFIX, CLSNAME, TT, LIST)                                                           \
    namespace PREFIX##_ns                                                                                    \
    {                                                                                                        \
        using T = TT;                                                                                        \
        enum { LIST(VPF_ENUM) NF };                                                                          \
        static constexpr unsigned offs[] = {LIST(VPF_OFF) 0};                                                    \
        static constexpr unsigned nbs[] = {LIST(VPF_NB) 0};                                                      \
        static constexpr uint64_t masks[] = {LIST(VPF_MASK) 0};                                                  \
        struct Tab                                                                                           \
        {                                                                                                    \
            bool ov[NF + 1][NF + 1];                                                                         \
            uint8_t bm[NF + 1][T::LEN];                                                                      \
            uint8_t any[T::LEN];                                                                             \
        };                                                                                                   \
        static constexpr Tab mkTab()                                                                         \
        {                                                                                                    \
            Tab t{};                                                                                         \
            for (int a = 0; a < NF; ++a)                                                                     \
                for (unsigned byte = 0; byte < T::LEN; ++byte)                                               \
                {                                                                                            \
                    t.bm[a][byte] = vp_bytemask(byte, offs[a], nbs[a], masks[a]);                            \
                    t.any[byte] |= t.bm[a][byte];                                                            \
                }                                                                                            \
            for (int a = 0; a < NF; ++a)                                                                     \
                for (int b = 0; b < NF; ++b)                                                                 \
                    for (unsigned byte = 0; byte < T::LEN; ++byte)                                           \
                        if (t.bm[a][byte] & t.bm[b][byte])                                                   \
                            t.ov[a][b] = true;                                                               \
            return t;                                                                                        \
        }                                                                                                    \
        static constexpr Tab tab = mkTab();                                                                  \
        static inline bool overlap(int a, int b) { return tab.ov[a][b]; }                                    \
        static inline void snap(const T::Obj& o, uint64_t* g)                                                \
        {                                                                                                    \
            int i = 0;                                                                                       \
            LIST(VPF_SNAP)                                                                                   \
        }                                                                                                    \
        static inline void layout(const uint8_t* raw, uint64_t* lay)                                         \
        {                                                                                                    \
            int i = 0;                                                                                       \
            LIST(VPF_LAYOUT)                                                                                 \
        }                                                                                                    \
        template <int MODE>                                                                                  \
        static void run()                                                                                    \
        {                                                                                                    \
            uint8_t rawBefore[T::LEN], rawAfter[T::LEN];                                                     \
            uint64_t before[NF + 1], after[NF + 1], lay[NF + 1];                                             \
            vp_bytes(rawBefore, T::LEN);                                                                     \
            T::constrain(rawBefore);                                                                         \
            T::Obj* op = T::make(rawBefore);                                                                 \
            T::Obj& o = *op;                                                                                 \
            snap(o, before);                                                                                 \
            if (MODE == 12)                                                                                  \
            {                                                                                                \
                layout(rawBefore, lay);                                                                      \
                for (int j = 0; j < NF; ++j)                                                                 \
                    vp_assert(before[j] == lay[j], CLSNAME ": getters read the big-endian layout fields");   \
            }                                                                                                \
            const uint8_t which = vp_u8();                                                                   \
            const uint64_t val = vp_u64();                                                                   \
            vp_assume(which < NF);                                                                           \
            switch (which)                                                                                   \
            {                                                                                                \
                LIST(VPF_CASE)                                                                               \
            }                                                                                                \
        }                                                                                                    \
        static void reserved()                                                                               \
        {                                                                                                    \
            T::Obj* op = T::makeDefault();                                                                   \
            uint8_t raw[T::LEN];                                                                             \
            memset(raw, 0xEE, sizeof raw);                                                                   \
            T::raw(*op, raw);                                                                                \
            for (unsigned b = 0; b < T::HDR; ++b)                                                            \
            {                                                                                                \
                const uint8_t m = tab.any[b];                                                                \
                vp_assert((raw[b] & ~m) == 0, CLSNAME ": reserved bits are zero in a default-constructed object"); \
            }                                                                                                \
        }                                                                                                    \
    }                                                                                                        \
    VP_HARNESS(PREFIX##_c11) { PREFIX##_ns::run<11>(); }                                                     \
    VP_HARNESS(PREFIX##_c12) { PREFIX##_ns::run<12>(); }                                                     \
    VP_HARNESS(PREFIX##_c12_default) { PREFIX##_ns::reserved(); }

// Flag operations setFlag(mask, bool): the named flags field becomes (before & ~m) | (b ? m : 0) for every enumerator
// mask m (also multi-bit ones), from any prior state; no other field's getter and no byte outside the flags field changes.
#define VP_FLAGOP_HARNESS(ENTRY, NS, TT, LBL, FIELD, SETCALL, ...)                                                    \
    VP_HARNESS(ENTRY)                                                                                                 \
    {                                                                                                                 \
        using namespace NS;                                                                                           \
        using T = TT;                                                                                                 \
        uint8_t rawBefore[T::LEN], rawAfter[T::LEN];                                                                  \
        uint64_t before[NF + 1], after[NF + 1];                                                                       \
        vp_bytes(rawBefore, T::LEN);                                                                                  \
        T::constrain(rawBefore);                                                                                      \
        T::Obj* op = T::make(rawBefore);                                                                              \
        T::Obj& o = *op;                                                                                              \
        snap(o, before);                                                                                              \
        static const uint16_t flagMasks[] = {__VA_ARGS__};                                                            \
        const unsigned k = vp_u8();                                                                                   \
        vp_assume(k < sizeof(flagMasks) / sizeof(flagMasks[0]));                                                      \
        const uint16_t m = flagMasks[k];                                                                              \
        const bool b = (vp_u8() & 1) != 0;                                                                            \
        SETCALL;                                                                                                      \
        snap(o, after);                                                                                               \
        T::raw(o, rawAfter);                                                                                          \
        vp_assert(after[F_##FIELD] == ((before[F_##FIELD] & ~static_cast<uint64_t>(m)) | (b ? m : 0)),                \
                  LBL ": a flag is set / cleared and its neighbours in the flags field keep their value");            \
        for (int j = 0; j < NF; ++j)                                                                                  \
            if (j != F_##FIELD && !overlap(F_##FIELD, j))                                                             \
                vp_assert(after[j] == before[j], LBL ": setting a flag changes no other field");                      \
        for (unsigned byte = 0; byte < T::LEN; ++byte)                                                                \
            vp_assert((rawAfter[byte] & ~tab.bm[F_##FIELD][byte]) == (rawBefore[byte] & ~tab.bm[F_##FIELD][byte]),    \
                      LBL ": setting a flag changes no byte outside the flags field");                                \
    }
