// C05 / C06 / C17 / C18: a sequence of F frames (concrete shape, symbolic contents) through one real Decoder,
// compared frame by frame with an independent reference reassembler; the pending table is observed through the
// ASAM_CMP_VERIF friend hook.
//
// Per frame f (macros suffixed _f): SEG (0 unsegmented, 1 first, 2 intermediary, 3 last), EP (endpoint index 0/1),
// LEN (declared payload bytes), TRAIL (bytes following the declared length inside the frame), CNT (sequence-counter
// offset from the endpoint's symbolic start counter), VX (1: different protocol version), TX (1: different message
// type), BAD (1: message-level invalid: error-in-payload flag set; 2: declared length exceeds the frame),
// KIND (0 CMP frame, 1 TECMP-routed frame (first byte 0), 2 undersized buffer (< 8 bytes), 3 runt frame: the endpoint's
// 8-byte CMP header followed by RUNTLEN (1..15) arbitrary bytes - a message cut off inside its header: invalid, ends the
// endpoint's open message; 4 the same bytes with first byte 0x00: a buffer that is routed to TECMP and is too short to be
// a TECMP frame - it must not touch any capture-module endpoint),
// AGG (only with SEG 0, BAD 0, TRAIL 0: a second message of AGGLEN bytes follows in the same frame - 1 unsegmented,
// 2 last segment (an orphan there), 3 first segment (opens a reassembly), 4 invalid (error-in-payload flag)).
#include <asam_cmp/decoder.h>
#include <asam_cmp/tecmp_decoder.h>
#include <cstring>
#include <new>
#include "verif.h"
using namespace ASAM::CMP;

#ifndef F
#define F 2
#endif
#define DEF4(NAME, d) \
    static const int NAME[4] = {NAME##_0, NAME##_1, NAME##_2, NAME##_3};
#ifndef SEG_0
#define SEG_0 1
#endif
#ifndef SEG_1
#define SEG_1 3
#endif
#ifndef SEG_2
#define SEG_2 0
#endif
#ifndef SEG_3
#define SEG_3 0
#endif
#ifndef EP_0
#define EP_0 0
#endif
#ifndef EP_1
#define EP_1 0
#endif
#ifndef EP_2
#define EP_2 0
#endif
#ifndef EP_3
#define EP_3 0
#endif
#ifndef LEN_0
#define LEN_0 8
#endif
#ifndef LEN_1
#define LEN_1 8
#endif
#ifndef LEN_2
#define LEN_2 8
#endif
#ifndef LEN_3
#define LEN_3 8
#endif
#ifndef TRAIL_0
#define TRAIL_0 0
#endif
#ifndef TRAIL_1
#define TRAIL_1 0
#endif
#ifndef TRAIL_2
#define TRAIL_2 0
#endif
#ifndef TRAIL_3
#define TRAIL_3 0
#endif
#ifndef CNT_0
#define CNT_0 0
#endif
#ifndef CNT_1
#define CNT_1 1
#endif
#ifndef CNT_2
#define CNT_2 2
#endif
#ifndef CNT_3
#define CNT_3 3
#endif
#ifndef VX_0
#define VX_0 0
#endif
#ifndef VX_1
#define VX_1 0
#endif
#ifndef VX_2
#define VX_2 0
#endif
#ifndef VX_3
#define VX_3 0
#endif
#ifndef TX_0
#define TX_0 0
#endif
#ifndef TX_1
#define TX_1 0
#endif
#ifndef TX_2
#define TX_2 0
#endif
#ifndef TX_3
#define TX_3 0
#endif
#ifndef BAD_0
#define BAD_0 0
#endif
#ifndef BAD_1
#define BAD_1 0
#endif
#ifndef BAD_2
#define BAD_2 0
#endif
#ifndef BAD_3
#define BAD_3 0
#endif
#ifndef KIND_0
#define KIND_0 0
#endif
#ifndef KIND_1
#define KIND_1 0
#endif
#ifndef KIND_2
#define KIND_2 0
#endif
#ifndef KIND_3
#define KIND_3 0
#endif
#ifndef FLG
#define FLG 0x21
#endif
#ifndef AGG_0
#define AGG_0 0
#endif
#ifndef AGG_1
#define AGG_1 0
#endif
#ifndef AGG_2
#define AGG_2 0
#endif
#ifndef AGG_3
#define AGG_3 0
#endif
#define AGGLEN 4
#ifndef RUNTLEN
#define RUNTLEN 5
#endif
#ifndef DUP_0
#define DUP_0 -1
#endif
#ifndef DUP_1
#define DUP_1 -1
#endif
#ifndef DUP_2
#define DUP_2 -1
#endif
#ifndef DUP_3
#define DUP_3 -1
#endif
#ifndef START0
#define START0 -1
#endif
#ifndef START1
#define START1 -1
#endif
#ifndef SYMIDS
#define SYMIDS 0
#endif
#ifndef SAMEDEV
#define SAMEDEV 0  // 1: the two endpoints share the device id (differ in stream id only); 2: share the stream id
#endif
DEF4(SEG, 0) DEF4(EP, 0) DEF4(LEN, 0) DEF4(TRAIL, 0) DEF4(CNT, 0) DEF4(VX, 0) DEF4(TX, 0) DEF4(BAD, 0) DEF4(KIND, 0) DEF4(DUP, 0) DEF4(AGG, 0)
#define LMAXS 24
#define BUFMAX (LMAXS * 4)

namespace ASAM
{
namespace CMP
{
    struct VerifAccess
    {
        // the pending table's key type: equality and hash over all id values (leaf check, C18/C05)
        static bool keyEq(uint16_t d1, uint8_t s1, uint16_t d2, uint8_t s2) { return Decoder::Endpoint{d1, s1} == Decoder::Endpoint{d2, s2}; }
        static size_t keyHash(uint16_t d, uint8_t s) { return Decoder::EndpointHash()(Decoder::Endpoint{d, s}); }
        static size_t pendingCount(Decoder& d) { return d.segmentedPackets.size(); }
        static bool hasEntry(Decoder& d, uint16_t dev, uint8_t stream) { return d.segmentedPackets.count(Decoder::Endpoint{dev, stream}) != 0; }
        static size_t entryBytes(Decoder& d, uint16_t dev, uint8_t stream)
        {
#ifdef VP_MAPMODEL
            auto* v = d.segmentedPackets.vp_find(Decoder::Endpoint{dev, stream});
            return v ? v->payload.size() : 0;
#else
            auto it = d.segmentedPackets.find(Decoder::Endpoint{dev, stream});
            return it == d.segmentedPackets.end() ? 0 : it->second.payload.size();
#endif
        }
    };
}
}

using Packets = std::vector<std::shared_ptr<Packet>>;

#ifndef PFX
#define PFX 5
#endif
#if PFX == 5
#define PL(s) "C05: " s
#elif PFX == 4
#define PL(s) "C04: " s   // wire fidelity of messages decoded after a history of other frames on the same decoder
#elif PFX == 6
#define PL(s) "C06: " s
#elif PFX == 17
#define PL(s) "C17: " s
#elif PFX == 18
#define PL(s) "C18: " s
#endif

#ifdef VP_CBMC
// The TECMP decoder is a static function of (data,size) only: it cannot reach a Decoder's pending table. It is cut
// here (its own behaviour is C15/C02); natively the real one runs and its result is ignored.
std::vector<std::shared_ptr<ASAM::CMP::Packet>> TECMP::Decoder::Decode(const void*, const std::size_t)
{
    return {};
}
#endif

struct Msg  // what one frame carries (symbolic contents)
{
    uint8_t data[LMAXS];
    uint8_t trail[LMAXS];
    uint64_t ts;
    uint64_t ts2;   // timestamp of the frame's second message (AGG)
    uint32_t ifId;
    uint8_t flags;  // non-segmentation, non-error bits
};
static Msg g_msg[4];

struct Open  // reference reassembly state of one endpoint
{
    bool open;
    int lastCnt;
    int vx, tx;
    int firstFrame;
    bool firstIsSecond;  // the open message began with the second message of its frame (AGG 3)
    unsigned n;
    uint8_t bytes[BUFMAX];
};
static Open g_open[2];

static uint8_t g_frame[8 + 16 + 2 * LMAXS];

#if PFX == 6
// C06 oracle: the messages that were *sent* (before faults): per endpoint, frames ordered by counter offset,
// grouped first, intermediary..., last with consecutive counters (duplicates excluded), or single unsegmented frames.
struct Group
{
    int e, nf, frames[4];
};
static Group g_grp[4];
static int g_ngrp;
static void buildGroups()
{
    g_ngrp = 0;
    for (int e = 0; e < 2; ++e)
    {
        int idx[4], n = 0;
        for (int f = 0; f < F; ++f)
            if (EP[f] == e && KIND[f] == 0 && !BAD[f] && DUP[f] < 0)
                idx[n++] = f;
        for (int i = 1; i < n; ++i)
            for (int j = i; j > 0 && CNT[idx[j]] < CNT[idx[j - 1]]; --j)
            {
                int t = idx[j];
                idx[j] = idx[j - 1];
                idx[j - 1] = t;
            }
        Group cur;
        cur.nf = 0;
        cur.e = e;
        for (int i = 0; i < n; ++i)
        {
            const int f = idx[i];
            if (SEG[f] == 0)
            {
                Group g;
                g.e = e;
                g.nf = 1;
                g.frames[0] = f;
                g_grp[g_ngrp++] = g;
                cur.nf = 0;
            }
            else if (SEG[f] == 1)
            {
                cur.nf = 1;
                cur.frames[0] = f;
            }
            else if (cur.nf > 0 && CNT[f] == CNT[cur.frames[cur.nf - 1]] + 1)
            {
                cur.frames[cur.nf++] = f;
                if (SEG[f] == 3)
                {
                    g_grp[g_ngrp++] = cur;
                    cur.nf = 0;
                }
            }
            else
                cur.nf = 0;
        }
    }
}
static bool matchesGroup(const Packet& p, const Group& g, const uint16_t* dev, const uint8_t* stream)
{
    unsigned total = 0;
    for (int k = 0; k < g.nf; ++k)
        total += LEN[g.frames[k]];
    if (p.getPayloadLength() != total)
        return false;
    const int h = g.frames[0];
    bool ok = p.getDeviceId() == dev[g.e] && p.getStreamId() == stream[g.e] && p.getTimestamp() == g_msg[h].ts &&
              (p.getCommonFlags() & 0xB3) == g_msg[h].flags && p.getPayloadType() == 0xFE;
    const uint8_t* raw = p.getPayload().getRawPayload();
    unsigned pos = 0;
    for (int k = 0; k < g.nf; ++k)
        for (int i = 0; i < LEN[g.frames[k]]; ++i)
            ok = ok && raw[pos++] == g_msg[g.frames[k]].data[i];
    return ok;
}
#endif

VP_HARNESS(h_seq)
{
    // two distinct endpoints with symbolic ids, symbolic start counters (wrap inside every query)
    uint16_t dev[2];
    uint8_t stream[2];
    uint16_t start[2];
    for (int e = 0; e < 2; ++e)
        start[e] = vp_u16();
#if START0 >= 0
    start[0] = START0;  // concrete start counter (fault shapes): keeps accept/reject decisions concrete for symex
#endif
#if START1 >= 0
    start[1] = START1;
#endif
#if SYMIDS
    for (int e = 0; e < 2; ++e)
    {
        dev[e] = vp_u16();
        stream[e] = vp_u8();
    }
#if SAMEDEV == 1
    dev[1] = dev[0];
    vp_assume(stream[0] != stream[1]);
#elif SAMEDEV == 2
    stream[1] = stream[0];
    vp_assume(dev[0] != dev[1]);
#else
    vp_assume(dev[0] != dev[1] || stream[0] != stream[1]);
#endif
#else
    // concrete ids (real libstdc++ hashtable stays tractable); symbolic ids run against the unordered_map model
    dev[0] = 0x1234;
    stream[0] = 7;
    dev[1] = SAMEDEV == 1 ? 0x1234 : 0xFFFF;
    stream[1] = SAMEDEV == 2 ? 7 : 0x80;
#endif
    for (unsigned f = 0; f < F; ++f)
    {
        vp_bytes(g_msg[f].data, LMAXS);
        vp_bytes(g_msg[f].trail, LMAXS);
        g_msg[f].ts = vp_u64();
        g_msg[f].ts2 = AGG[f] ? vp_u64() : 0;
        g_msg[f].ifId = vp_u32();
        g_msg[f].flags = (FLG) & 0xB3;  // concrete: a symbolic flags byte makes the segment-type dispatch symbolic for CBMC's simplifier
    }
    for (unsigned f = 0; f < F; ++f)
        if (DUP[f] >= 0)
            g_msg[f] = g_msg[DUP[f]];  // a duplicated frame carries the content of its original
    g_open[0].open = g_open[1].open = false;
#if PFX == 6
    buildGroups();
#endif
    Decoder* d = new Decoder;

    for (unsigned f = 0; f < F; ++f)
    {
        const int e = EP[f];
        // ---- build the frame
        unsigned n = 0;
        if (KIND[f] == 3 || KIND[f] == 4)
        {
            uint8_t* b = g_frame;
            b[0] = KIND[f] == 4 ? 0 : (VX[f] ? 2 : 1);
            b[1] = 0;
            vp_put16(b + 2, dev[e]);
            b[4] = TX[f] ? 3 : 1;
            b[5] = stream[e];
            vp_put16(b + 6, static_cast<uint16_t>(start[e] + CNT[f]));
            vp_bytes(b + 8, RUNTLEN);
            n = 8 + RUNTLEN;
        }
        else if (KIND[f] == 2)
        {
            n = 7;
            vp_bytes(g_frame, 7);
        }
        else
        {
            uint8_t* b = g_frame;
            b[0] = KIND[f] == 1 ? 0 : (VX[f] ? 2 : 1);
            b[1] = 0;
            vp_put16(b + 2, dev[e]);
            b[4] = TX[f] ? 3 : 1;
            b[5] = stream[e];
            vp_put16(b + 6, static_cast<uint16_t>(start[e] + CNT[f]));
            uint8_t* m = b + 8;
            vp_put32(m, static_cast<uint32_t>(g_msg[f].ts >> 32));
            vp_put32(m + 4, static_cast<uint32_t>(g_msg[f].ts));
            vp_put32(m + 8, g_msg[f].ifId);
            m[12] = static_cast<uint8_t>(g_msg[f].flags | (SEG[f] << 2) | (BAD[f] == 1 ? 0x40 : 0));
            m[13] = 0xFE;
            vp_put16(m + 14, static_cast<uint16_t>(BAD[f] == 2 ? LEN[f] + TRAIL[f] + 1 : LEN[f]));
            for (int i = 0; i < LEN[f]; ++i)
                m[16 + i] = g_msg[f].data[i];
            for (int i = 0; i < TRAIL[f]; ++i)
                m[16 + LEN[f] + i] = g_msg[f].trail[i];
            n = 8 + 16 + LEN[f] + TRAIL[f];
            if (AGG[f])
            {
                uint8_t* m2 = m + 16 + LEN[f];
                vp_put32(m2, static_cast<uint32_t>(g_msg[f].ts2 >> 32));
                vp_put32(m2 + 4, static_cast<uint32_t>(g_msg[f].ts2));
                vp_put32(m2 + 8, g_msg[f].ifId ^ 0x01010101u);
                m2[12] = static_cast<uint8_t>(g_msg[f].flags | ((AGG[f] == 2 ? 3 : AGG[f] == 3 ? 1 : 0) << 2) | (AGG[f] == 4 ? 0x40 : 0));
                m2[13] = 0xFE;
                vp_put16(m2 + 14, AGGLEN);
                for (int i = 0; i < AGGLEN; ++i)
                    m2[16 + i] = g_msg[f].trail[i];
                n += 16 + AGGLEN;
            }
        }
        uint8_t* buf = static_cast<uint8_t*>(operator new(n));
        for (unsigned i = 0; i < n; ++i)
            buf[i] = g_frame[i];

        // ---- reference reassembler: what must be delivered by this frame, and the pending state afterwards
        bool deliver = false;
        bool deliver2 = false;  // the frame's second message (AGG 1) is delivered as a packet of its own
        bool hdrSecond = false; // the delivered reassembly began with the second message of frame hdrFrame
        int hdrFrame = f;     // frame whose header fields the delivered packet carries
        unsigned expN = 0;
        static uint8_t expBytes[BUFMAX];
        Open& o = g_open[e];
        if (KIND[f] == 3)
            o.open = false;  // an incomplete (invalid) message of this endpoint
        if (KIND[f] == 0)
        {
            if (BAD[f])
                o.open = false;
            else if (SEG[f] == 0)
            {
                o.open = false;
                deliver = true;
                expN = LEN[f];
                for (int i = 0; i < LEN[f]; ++i)
                    expBytes[i] = g_msg[f].data[i];
            }
            else if (SEG[f] == 1)
            {
                o.open = true;
                o.lastCnt = CNT[f];
                o.vx = VX[f];
                o.tx = TX[f];
                o.firstFrame = f;
                o.firstIsSecond = false;
                o.n = LEN[f];
                for (int i = 0; i < LEN[f]; ++i)
                    o.bytes[i] = g_msg[f].data[i];
            }
            else
            {
                // counters are compared through their concrete offsets: start[e]+a+1 == start[e]+b (mod 65536) iff b == a+1
                if (o.open && o.vx == VX[f] && o.tx == TX[f] && CNT[f] == o.lastCnt + 1)
                {
                    for (int i = 0; i < LEN[f]; ++i)
                        o.bytes[o.n + i] = g_msg[f].data[i];
                    o.n += LEN[f];
                    o.lastCnt = CNT[f];
                    if (SEG[f] == 3)
                    {
                        deliver = true;
                        hdrFrame = o.firstFrame;
                        hdrSecond = o.firstIsSecond;
                        expN = o.n;
                        for (unsigned i = 0; i < o.n; ++i)
                            expBytes[i] = o.bytes[i];
                        o.open = false;
                    }
                }
                else
                    o.open = false;
            }
            // second message of the frame: parsed only after a valid unsegmented first message (a segment or an invalid
            // message ends the walk through the frame)
            if (AGG[f] && !BAD[f] && SEG[f] == 0)
            {
                if (AGG[f] == 1)
                    deliver2 = true;
                else if (AGG[f] == 3)
                {
                    o.open = true;
                    o.lastCnt = CNT[f];
                    o.vx = VX[f];
                    o.tx = TX[f];
                    o.firstFrame = f;
                    o.firstIsSecond = true;
                    o.n = AGGLEN;
                    for (int i = 0; i < AGGLEN; ++i)
                        o.bytes[i] = g_msg[f].trail[i];
                }
                else
                    o.open = false;  // orphan last segment / invalid message
            }
        }

        // ---- the real decoder
        Packets* ps = new Packets(d->decode(buf, n));
        operator delete(buf);

        if (KIND[f] == 4)
            vp_assert(ps->size() == 0, PL("a buffer that starts like TECMP and is too short for a TECMP header yields no packet"));
#if PFX == 6
        if (KIND[f] != 1 && KIND[f] != 4)
        {
            // soundness: whatever is delivered is byte-identical to a sent message (never a mix, a hole or a repeat)
            vp_assert(ps->size() <= 1, PL("at most one packet per single-message frame"));
            if (ps->size() == 1)
            {
                bool any = false;
                for (int g = 0; g < 4; ++g)
                    if (g < g_ngrp && matchesGroup(*(*ps)[0], g_grp[g], dev, stream))
                        any = true;
                vp_assert(any, PL("every delivered packet is byte-identical to one message that was sent"));
            }
            // recovery: a message whose frames arrive complete, in order and uninterrupted on its endpoint is delivered
            if (deliver)
                vp_assert(ps->size() == 1, PL("a message arriving complete, in order and uninterrupted is delivered (the decoder recovers by itself)"));
        }
#endif
        if (KIND[f] != 1 && KIND[f] != 4 && PFX != 6)
        {
            vp_assert(ps->size() == (deliver ? 1u : 0u) + (deliver2 ? 1u : 0u), PL("a message is delivered exactly once, when its last segment (or the unsegmented message) arrives, and not otherwise"));
            if (deliver2 && ps->size() == 2)
            {
                const Packet& p = *(*ps)[1];
                vp_assert(p.getDeviceId() == dev[e] && p.getStreamId() == stream[e], PL("delivered packet is tagged with its endpoint"));
                vp_assert(p.getPayloadLength() == AGGLEN, PL("second message of an aggregated frame: delivered length is its declared length"));
                if (p.getPayloadLength() == AGGLEN)
                    for (unsigned i = 0; i < AGGLEN; ++i)
                        vp_assert(p.getPayload().getRawPayload()[i] == g_msg[f].trail[i], PL("second message of an aggregated frame: delivered payload is its declared bytes"));
                vp_assert(p.getVersion() == (VX[f] ? 2 : 1) && static_cast<uint8_t>(p.getMessageType()) == (TX[f] ? 3 : 1), PL("second message of an aggregated frame: version and message type of its frame"));
                vp_assert(p.getTimestamp() == g_msg[f].ts2, PL("second message of an aggregated frame: its own timestamp"));
                if (!TX[f])
                    vp_assert(p.getInterfaceId() == (g_msg[f].ifId ^ 0x01010101u), PL("second message of an aggregated frame: its own interface id"));
                vp_assert(p.getPayloadType() == 0xFE, PL("payload type is that of the message"));
            }
            if (deliver && ps->size() >= 1)
            {
                const Packet& p = *(*ps)[0];
                vp_assert(p.getDeviceId() == dev[e] && p.getStreamId() == stream[e], PL("delivered packet is tagged with its endpoint"));
                vp_assert(p.getPayloadLength() == expN, PL("delivered length is the sum of the segments' declared lengths (trailing bytes never enter)"));
                if (p.getPayloadLength() == expN)
                {
                    const uint8_t* raw = p.getPayload().getRawPayload();
                    for (unsigned i = 0; i < BUFMAX; ++i)
                        if (i < expN)
                            vp_assert(raw[i] == expBytes[i], PL("delivered payload is the concatenation of the segments' declared bytes"));
                }
                vp_assert(p.getVersion() == (VX[hdrFrame] ? 2 : 1), PL("version is that of the first segment"));
                vp_assert(static_cast<uint8_t>(p.getMessageType()) == (TX[hdrFrame] ? 3 : 1), PL("message type is that of the first segment"));
                vp_assert(p.getTimestamp() == (hdrSecond ? g_msg[hdrFrame].ts2 : g_msg[hdrFrame].ts), PL("timestamp is that of the first segment"));
                if (!TX[hdrFrame])
                    vp_assert(p.getInterfaceId() == (hdrSecond ? g_msg[hdrFrame].ifId ^ 0x01010101u : g_msg[hdrFrame].ifId), PL("interface id is that of the first segment"));
                vp_assert((p.getCommonFlags() & 0xB3) == g_msg[hdrFrame].flags, PL("non-segmentation flags are those of the first segment"));
                vp_assert(p.getPayloadType() == 0xFE, PL("payload type is that of the message"));
            }
        }
#if PFX == 17 || PFX == 18
        // ---- pending table (C17) and isolation (C18): the other endpoint's entry is whatever the reference says
        vp_assert(VerifAccess::hasEntry(*d, dev[0], stream[0]) == g_open[0].open && VerifAccess::hasEntry(*d, dev[1], stream[1]) == g_open[1].open,
                  PL("pending state exists exactly for endpoints whose latest frame opened or continued an incomplete message"));
        vp_assert(VerifAccess::pendingCount(*d) == (g_open[0].open ? 1u : 0u) + (g_open[1].open ? 1u : 0u),
                  PL("no other (default-constructed / leaked) pending entries"));
        for (int k = 0; k < 2; ++k)
            if (g_open[k].open)
                vp_assert(VerifAccess::entryBytes(*d, dev[k], stream[k]) == 16 + g_open[k].n,
                          PL("buffered bytes are the message header plus the declared segment bytes received so far"));
#endif
    }
}


// The pending table is keyed by (device id, stream id): two endpoints are the same key iff both ids are equal, and equal
// keys hash equally - for all 2^48 pairs of ids (this is what makes the concrete id representatives of h_seq representative).
VP_HARNESS(h_endpoint_key)
{
    const uint16_t d1 = vp_u16(), d2 = vp_u16();
    const uint8_t s1 = vp_u8(), s2 = vp_u8();
    const bool same = d1 == d2 && s1 == s2;
    vp_assert(VerifAccess::keyEq(d1, s1, d2, s2) == same, PL("two frames address the same reassembly state iff device id and stream id are both equal"));
    if (same)
        vp_assert(VerifAccess::keyHash(d1, s1) == VerifAccess::keyHash(d2, s2), PL("equal endpoints hash equally"));
}
