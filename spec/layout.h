// Wire layout tables, written from the protocol documents (ASAM CMP 1.0 "Capture Module Protocol", chapter
// "Message formats"; Technica TECMP specification) - NOT derived from the library's headers. Only the
// getter/setter *names* are the library's.  Bit numbering: bit 31 = most significant bit of the big-endian word.
//   F(name, value type, getter expression on object o, setter statement on o (argument v), byte offset, word bytes, mask in the word, shift)
#pragma once

// ---- CMP header (8 bytes): version, reserved, device id (16), message type, stream id, sequence counter (16)
#define LAYOUT_CMP_HEADER(F)                                                                                   \
    F(version, uint8_t, o.getVersion(), o.setVersion(v), 0, 1, 0xFF, 0)                                            \
    F(deviceId, uint16_t, o.getDeviceId(), o.setDeviceId(v), 2, 2, 0xFFFF, 0)                                      \
    F(messageType, uint8_t, o.getMessageType(), o.setMessageType(static_cast<ASAM::CMP::CmpHeader::MessageType>(v)), 4, 1, 0xFF, 0) \
    F(streamId, uint8_t, o.getStreamId(), o.setStreamId(v), 5, 1, 0xFF, 0)                                         \
    F(sequenceCounter, uint16_t, o.getSequenceCounter(), o.setSequenceCounter(v), 6, 2, 0xFFFF, 0)
#define SIZE_CMP_HEADER 8

// ---- message header (16 bytes): timestamp (64), interface id (32) [data] | reserved (16) + vendor id (16)
//      [status/vendor], common flags (8): bit0 recalc, bit1 insync, bits2-3 seg, bit4 di_on_if, bit5 overflow,
//      bit6 error in payload, bit7 reserved; payload type (8); payload length (16)
#define LAYOUT_MESSAGE_HEADER(F)                                                                               \
    F(timestamp, uint64_t, o.getTimestamp(), o.setTimestamp(v), 0, 8, 0xFFFFFFFFFFFFFFFFULL, 0)                    \
    F(interfaceId, uint32_t, o.getInterfaceId(), o.setInterfaceId(v), 8, 4, 0xFFFFFFFF, 0)                         \
    F(vendorId, uint16_t, o.getVendorId(), o.setVendorId(v), 10, 2, 0xFFFF, 0)                                     \
    F(commonFlags, uint8_t, o.getCommonFlags(), o.setCommonFlags(v), 12, 1, 0xFF, 0)                               \
    F(segmentType, uint8_t, o.getSegmentType(), o.setSegmentType(static_cast<ASAM::CMP::MessageHeader::SegmentType>(v)), 12, 1, 0x0C, 0) \
    F(payloadType, uint8_t, o.getPayloadType(), o.setPayloadType(v), 13, 1, 0xFF, 0)                               \
    F(payloadLength, uint16_t, o.getPayloadLength(), o.setPayloadLength(v), 14, 2, 0xFFFF, 0)
#define SIZE_MESSAGE_HEADER 16

// ---- CAN / CAN-FD data message payload header (16 bytes)
//  flags(16) reserved(16) | ID word: b31 IDE, b30 RTR/RRS, b29 rsvd, b28-0 ID | CRC word: b31 CRC support,
//  CAN: b14-0 CRC; CAN-FD: b30 SBC support, b24 SBC parity, b23-21 SBC, b20-0 CRC | error position(16) DLC(8) data length(8)
#define LAYOUT_CAN_HEADER(F)                                                                                   \
    F(flags, uint16_t, o.getFlags(), o.setFlags(v), 0, 2, 0xFFFF, 0)                                               \
    F(id, uint32_t, o.getId(), o.setId(v), 4, 4, 0x1FFFFFFF, 0)                                                    \
    F(rsvd, bool, o.getRsvd(), o.setRsvd(v), 4, 4, 0x20000000, 29)                                                 \
    F(rtrRrs, bool, o.getRtrRrs(), o.setRtrRrs(v), 4, 4, 0x40000000, 30)                                           \
    F(ide, bool, o.getIde(), o.setIde(v), 4, 4, 0x80000000, 31)                                                    \
    F(crc, uint16_t, o.getCrc(), o.setCrc(v), 8, 4, 0x00007FFF, 0)                                                 \
    F(crcSupport, bool, o.getCrcSupport(), o.setCrcSupport(v), 8, 4, 0x80000000, 31)                               \
    F(crcSbc, uint32_t, o.getCrcSbc(), o.setCrcSbc(v), 8, 4, 0x001FFFFF, 0)                                        \
    F(sbc, uint8_t, o.getSbc(), o.setSbc(v), 8, 4, 0x00E00000, 21)                                                 \
    F(sbcParity, bool, o.getSbcParity(), o.setSbcParity(v), 8, 4, 0x01000000, 24)                                  \
    F(sbcSupport, bool, o.getSbcSupport(), o.setSbcSupport(v), 8, 4, 0x40000000, 30)                               \
    F(errorPosition, uint16_t, o.getErrorPosition(), o.setErrorPosition(v), 12, 2, 0xFFFF, 0)                      \
    F(dlc, uint8_t, o.getDlc(), o.setDlc(v), 14, 1, 0xFF, 0)                                                       \
    F(dataLength, uint8_t, o.getDataLength(), o.setDataLength(v), 15, 1, 0xFF, 0)
#define SIZE_CAN_HEADER 16

// the CanPayload / CanFdPayload wrappers (fields with a public setter on the payload class)
#define LAYOUT_CAN_PAYLOAD(F)                                                                                  \
    F(flags, uint16_t, o.getFlags(), o.setFlags(v), 0, 2, 0xFFFF, 0)                                               \
    F(id, uint32_t, o.getId(), o.setId(v), 4, 4, 0x1FFFFFFF, 0)                                                    \
    F(rsvd, bool, o.getRsvd(), o.setRsvd(v), 4, 4, 0x20000000, 29)                                                 \
    F(rtr, bool, o.getRtr(), o.setRtr(v), 4, 4, 0x40000000, 30)                                                    \
    F(ide, bool, o.getIde(), o.setIde(v), 4, 4, 0x80000000, 31)                                                    \
    F(crc, uint16_t, o.getCrc(), o.setCrc(v), 8, 4, 0x00007FFF, 0)                                                 \
    F(crcSupport, bool, o.getCrcSupport(), o.setCrcSupport(v), 8, 4, 0x80000000, 31)                               \
    F(errorPosition, uint16_t, o.getErrorPosition(), o.setErrorPosition(v), 12, 2, 0xFFFF, 0)
#define LAYOUT_CANFD_PAYLOAD(F)                                                                                \
    F(flags, uint16_t, o.getFlags(), o.setFlags(v), 0, 2, 0xFFFF, 0)                                               \
    F(id, uint32_t, o.getId(), o.setId(v), 4, 4, 0x1FFFFFFF, 0)                                                    \
    F(rsvd, bool, o.getRsvd(), o.setRsvd(v), 4, 4, 0x20000000, 29)                                                 \
    F(rrs, bool, o.getRrs(), o.setRrs(v), 4, 4, 0x40000000, 30)                                                    \
    F(ide, bool, o.getIde(), o.setIde(v), 4, 4, 0x80000000, 31)                                                    \
    F(crc, uint32_t, o.getCrc(), o.setCrc(v), 8, 4, 0x001FFFFF, 0)                                                 \
    F(sbc, uint8_t, o.getSbc(), o.setSbc(v), 8, 4, 0x00E00000, 21)                                                 \
    F(sbcParity, bool, o.getSbcParity(), o.setSbcParity(v), 8, 4, 0x01000000, 24)                                  \
    F(sbcSupport, bool, o.getSbcSupport(), o.setSbcSupport(v), 8, 4, 0x40000000, 30)                               \
    F(crcSupport, bool, o.getCrcSupport(), o.setCrcSupport(v), 8, 4, 0x80000000, 31)                               \
    F(errorPosition, uint16_t, o.getErrorPosition(), o.setErrorPosition(v), 12, 2, 0xFFFF, 0)

// ---- LIN data message payload header (8 bytes): flags(16) reserved(16) PID(8: b7-6 parity, b5-0 id) reserved(8) checksum(8) data length(8)
#define LAYOUT_LIN(F)                                                                                          \
    F(flags, uint16_t, o.getFlags(), o.setFlags(v), 0, 2, 0xFFFF, 0)                                               \
    F(linId, uint8_t, o.getLinId(), o.setLinId(v), 4, 1, 0x3F, 0)                                                  \
    F(parityBits, uint8_t, o.getParityBits(), o.setParityBits(v), 4, 1, 0xC0, 6)                                   \
    F(checksum, uint8_t, o.getChecksum(), o.setChecksum(v), 6, 1, 0xFF, 0)
#define LAYOUT_LIN_HEADER(F) LAYOUT_LIN(F) F(dataLength, uint8_t, o.getDataLength(), o.setDataLength(v), 7, 1, 0xFF, 0)
#define SIZE_LIN_HEADER 8

// ---- Ethernet data message payload header (6 bytes): flags(16) reserved(16) data length(16)
#define LAYOUT_ETH(F) F(flags, uint16_t, o.getFlags(), o.setFlags(v), 0, 2, 0xFFFF, 0)
#define LAYOUT_ETH_HEADER(F) LAYOUT_ETH(F) F(dataLength, uint16_t, o.getDataLength(), o.setDataLength(v), 4, 2, 0xFFFF, 0)
#define SIZE_ETH_HEADER 6

// ---- analog data message payload header (16 bytes): flags(16: b1-0 sample datatype) reserved(8) unit(8)
//      sample interval, offset, scalar (IEEE-754 single, big-endian)
//      (the library's SampleDt enumerators are the datatype value in the low byte of the big-endian flags, as a
//      host-order 16-bit constant: aInt32 = 0x0100; the value is taken from / put into the high byte of that constant)
#define LAYOUT_ANALOG(F)                                                                                       \
    F(flags, uint16_t, o.getFlags(), o.setFlags(v), 0, 2, 0xFFFF, 0)                                               \
    F(sampleDt, uint8_t, (static_cast<uint16_t>(o.getSampleDt()) >> 8), o.setSampleDt(static_cast<ASAM::CMP::AnalogPayload::SampleDt>(static_cast<uint16_t>(v) << 8)), 1, 1, 0x03, 0) \
    F(unit, uint8_t, o.getUnit(), o.setUnit(static_cast<ASAM::CMP::AnalogPayload::Unit>(v)), 3, 1, 0xFF, 0)       \
    F(sampleInterval, float, o.getSampleInterval(), o.setSampleInterval(v), 4, 4, 0xFFFFFFFF, 0)                   \
    F(sampleOffset, float, o.getSampleOffset(), o.setSampleOffset(v), 8, 4, 0xFFFFFFFF, 0)                         \
    F(sampleScalar, float, o.getSampleScalar(), o.setSampleScalar(v), 12, 4, 0xFFFFFFFF, 0)
#define SIZE_ANALOG_HEADER 16

// ---- capture module status payload, fixed part (26 bytes)
#define LAYOUT_CM(F)                                                                                           \
    F(uptime, uint64_t, o.getUptime(), o.setUptime(v), 0, 8, 0xFFFFFFFFFFFFFFFFULL, 0)                             \
    F(gmIdentity, uint64_t, o.getGmIdentity(), o.setGmIdentity(v), 8, 8, 0xFFFFFFFFFFFFFFFFULL, 0)                 \
    F(gmClockQuality, uint32_t, o.getGmClockQuality(), o.setGmClockQuality(v), 16, 4, 0xFFFFFFFF, 0)               \
    F(currentUtcOffset, uint16_t, o.getCurrentUtcOffset(), o.setCurrentUtcOffset(v), 20, 2, 0xFFFF, 0)             \
    F(timeSource, uint8_t, o.getTimeSource(), o.setTimeSource(v), 22, 1, 0xFF, 0)                                  \
    F(domainNumber, uint8_t, o.getDomainNumber(), o.setDomainNumber(v), 23, 1, 0xFF, 0)                            \
    F(gptpFlags, uint8_t, o.getGptpFlags(), o.setGptpFlags(v), 25, 1, 0xFF, 0)
#define SIZE_CM_HEADER 26

// ---- interface status payload, fixed part (36 bytes)
#define LAYOUT_IF(F)                                                                                           \
    F(interfaceId, uint32_t, o.getInterfaceId(), o.setInterfaceId(v), 0, 4, 0xFFFFFFFF, 0)                         \
    F(msgTotalRx, uint32_t, o.getMsgTotalRx(), o.setMsgTotalRx(v), 4, 4, 0xFFFFFFFF, 0)                            \
    F(msgTotalTx, uint32_t, o.getMsgTotalTx(), o.setMsgTotalTx(v), 8, 4, 0xFFFFFFFF, 0)                            \
    F(msgDroppedRx, uint32_t, o.getMsgDroppedRx(), o.setMsgDroppedRx(v), 12, 4, 0xFFFFFFFF, 0)                     \
    F(msgDroppedTx, uint32_t, o.getMsgDroppedTx(), o.setMsgDroppedTx(v), 16, 4, 0xFFFFFFFF, 0)                     \
    F(errorsTotalRx, uint32_t, o.getErrorsTotalRx(), o.setErrorsTotalRx(v), 20, 4, 0xFFFFFFFF, 0)                  \
    F(errorsTotalTx, uint32_t, o.getErrorsTotalTx(), o.setErrorsTotalTx(v), 24, 4, 0xFFFFFFFF, 0)                  \
    F(interfaceType, uint8_t, o.getInterfaceType(), o.setInterfaceType(v), 28, 1, 0xFF, 0)                         \
    F(interfaceStatus, uint8_t, o.getInterfaceStatus(), o.setInterfaceStatus(static_cast<ASAM::CMP::InterfacePayload::InterfaceStatus>(v)), 29, 1, 0xFF, 0) \
    F(featureSupportBitmask, uint32_t, o.getFeatureSupportBitmask(), o.setFeatureSupportBitmask(v), 32, 4, 0xFFFFFFFF, 0)
#define SIZE_IF_HEADER 36

// ---- TECMP header (28 bytes): device id(16; the library exposes its low byte, the high byte is 0 for frames it routes to
//      TECMP) counter(16) version(8) message type(8) data type(16) reserved(16) device flags(16) | interface id(32)
//      timestamp(64) payload length(16) data flags(16)
#define LAYOUT_TECMP_HEADER(F)                                                                                 \
    F(deviceId, uint8_t, o.getDeviceId(), o.setDeviceId(v), 1, 1, 0xFF, 0)                                         \
    F(sequenceCounter, uint16_t, o.getSequenceCounter(), o.setSequenceCounter(v), 2, 2, 0xFFFF, 0)                 \
    F(version, uint8_t, o.getVersion(), o.setVersion(v), 4, 1, 0xFF, 0)                                            \
    F(messageType, uint8_t, o.getMessageType(), o.setMessageType(static_cast<TECMP::CmpHeader::MessageType>(v)), 5, 1, 0xFF, 0) \
    F(dataType, uint16_t, o.getDataType(), o.setDataType(static_cast<TECMP::CmpHeader::DataType>(v)), 6, 2, 0xFFFF, 0) \
    F(deviceFlags, uint16_t, o.getDeviceFlags(), o.setDeviceFlags(v), 10, 2, 0xFFFF, 0)                            \
    F(interfaceId, uint32_t, o.getInterfaceId(), o.setInterfaceId(v), 12, 4, 0xFFFFFFFF, 0)                        \
    F(timestamp, uint64_t, o.getTimestamp(), o.setTimestamp(v), 16, 8, 0xFFFFFFFFFFFFFFFFULL, 0)                   \
    F(payloadLength, uint16_t, o.getPayloadLength(), o.setPayloadLength(v), 24, 2, 0xFFFF, 0)
#define SIZE_TECMP_HEADER 28

// ---- TECMP CAN payload: arbitration id(32) dlc(8) | TECMP LIN payload: pid(8) data length(8)
#define LAYOUT_TECMP_CAN(F)                                                                                    \
    F(arbId, uint32_t, o.getArbId(), o.setArbId(v), 0, 4, 0xFFFFFFFF, 0)                                           \
    F(dlc, uint8_t, o.getDlc(), o.setDlc(v), 4, 1, 0xFF, 0)
#define LAYOUT_TECMP_LIN(F)                                                                                    \
    F(pid, uint8_t, o.getPid(), o.setPid(v), 0, 1, 0xFF, 0)                                                        \
    F(dataLength, uint8_t, o.getDataLength(), o.setDataLength(v), 1, 1, 0xFF, 0)

// ---- TECMP bus status payload as the library views it (generic part + one bus entry + link data), 28 bytes
#define LAYOUT_TECMP_IF(F)                                                                                     \
    F(vendorId, uint8_t, o.getVendorId(), o.setVendorId(v), 0, 1, 0xFF, 0)                                         \
    F(cmVersion, uint8_t, o.getCmVersion(), o.setCmVersion(v), 1, 1, 0xFF, 0)                                      \
    F(cmType, uint8_t, o.getCmType(), o.setCmType(v), 2, 1, 0xFF, 0)                                               \
    F(vendorDataLength, uint16_t, o.getVendorDataLength(), o.setVendorDataLength(v), 4, 2, 0xFFFF, 0)              \
    F(deviceId, uint16_t, o.getDeviceId(), o.setDeviceId(v), 6, 2, 0xFFFF, 0)                                      \
    F(serialNumber, uint32_t, o.getSerialNumber(), o.setSerialNumber(v), 8, 4, 0xFFFFFFFF, 0)                      \
    F(interfaceId, uint32_t, o.getInterfaceId(), o.setInterfaceId(v), 12, 4, 0xFFFFFFFF, 0)                        \
    F(messagesTotal, uint32_t, o.getMessagesTotal(), o.setMessagesTotal(v), 16, 4, 0xFFFFFFFF, 0)                  \
    F(errorsTotal, uint32_t, o.getErrorsTotal(), o.setErrorsTotal(v), 20, 4, 0xFFFFFFFF, 0)                        \
    F(linkStatus, uint8_t, o.getVendorDataLinkStatus(), o.setVendorDataLinkStatus(v), 24, 1, 0xFF, 0)              \
    F(linkQuality, uint8_t, o.getVendorDataLinkQuality(), o.setVendorDataLinkQuality(v), 25, 1, 0xFF, 0)           \
    F(linkupTime, uint16_t, o.getVendorDataLinkupTime(), o.setVendorDataLinkupTime(v), 26, 2, 0xFFFF, 0)
#define SIZE_TECMP_IF 28

// ---- TECMP capture module status payload (36 bytes)
#define LAYOUT_TECMP_CM(F)                                                                                     \
    F(vendorId, uint8_t, o.getVendorId(), o.setVendorId(v), 0, 1, 0xFF, 0)                                         \
    F(deviceVersion, uint8_t, o.getDeviceVersion(), o.setDeviceVersion(v), 1, 1, 0xFF, 0)                          \
    F(deviceType, uint8_t, o.getDeviceType(), o.setDeviceType(v), 2, 1, 0xFF, 0)                                   \
    F(vendorDataLength, uint16_t, o.getVendorDataLength(), o.setVendorDataLength(v), 4, 2, 0xFFFF, 0)              \
    F(deviceId, uint16_t, o.getDeviceId(), o.setDeviceId(v), 6, 2, 0xFFFF, 0)                                      \
    F(serialNumber, uint32_t, o.getSerialNumber(), o.setSerialNumber(v), 8, 4, 0xFFFFFFFF, 0)                      \
    F(swMajor, uint8_t, o.getSwVersionMajor(), o.setSwVersionMajor(v), 13, 1, 0xFF, 0)                             \
    F(swMinor, uint8_t, o.getSwVersionMinor(), o.setSwVersionMinor(v), 14, 1, 0xFF, 0)                             \
    F(swPatch, uint8_t, o.getSwVersionPatch(), o.setSwVersionPatch(v), 15, 1, 0xFF, 0)                             \
    F(hwMajor, uint8_t, o.getHwVersionMajor(), o.setHwVersionMajor(v), 16, 1, 0xFF, 0)                             \
    F(hwMinor, uint8_t, o.getHwVersionMinor(), o.setHwVersionMinor(v), 17, 1, 0xFF, 0)                             \
    F(bufferFill, uint8_t, o.getBufferFill(), o.setBufferFill(v), 18, 1, 0xFF, 0)                                  \
    F(isBufferOverflow, uint8_t, o.getIsBufferOverflow(), o.setIsBufferOverflow(v), 19, 1, 0xFF, 0)                \
    F(bufferSize, uint32_t, o.getBufferSize(), o.setBufferSize(v), 20, 4, 0xFFFFFFFF, 0)                           \
    F(lifecycle, uint64_t, o.getLifecycle(), o.setLifecycle(v), 24, 8, 0xFFFFFFFFFFFFFFFFULL, 0)                   \
    F(voltageWhole, uint8_t, o.getVoltageWhole(), o.setVoltageWhole(v), 32, 1, 0xFF, 0)                            \
    F(voltageFraction, uint8_t, o.getVoltageFraction(), o.setVoltageFraction(v), 33, 1, 0xFF, 0)                   \
    F(chassisTemp, uint8_t, o.getChassisTemp(), o.setChassisTemp(v), 34, 1, 0xFF, 0)                               \
    F(siliconTemp, uint8_t, o.getSilliconTemp(), o.setSilliconTemp(v), 35, 1, 0xFF, 0)
#define SIZE_TECMP_CM 36
