// Wire layout tables, written from the protocol documents (ASAM CMP 1.0 "Capture Module Protocol", chapter
// "Message formats"; Technica TECMP specification) - NOT derived from the library's headers. Only the
// getter/setter *names* are the library's.  Bit numbering: bit 31 = most significant bit of the big-endian word.
//   F(name, value type, getter, setter (argument v), byte offset, word bytes, mask in the word, shift)
#pragma once

// ---- CMP header (8 bytes): version, reserved, device id (16), message type, stream id, sequence counter (16)
#define LAYOUT_CMP_HEADER(F)                                                                                   \
    F(version, uint8_t, getVersion(), setVersion(v), 0, 1, 0xFF, 0)                                            \
    F(deviceId, uint16_t, getDeviceId(), setDeviceId(v), 2, 2, 0xFFFF, 0)                                      \
    F(messageType, uint8_t, getMessageType(), setMessageType(static_cast<ASAM::CMP::CmpHeader::MessageType>(v)), 4, 1, 0xFF, 0) \
    F(streamId, uint8_t, getStreamId(), setStreamId(v), 5, 1, 0xFF, 0)                                         \
    F(sequenceCounter, uint16_t, getSequenceCounter(), setSequenceCounter(v), 6, 2, 0xFFFF, 0)
#define SIZE_CMP_HEADER 8

// ---- message header (16 bytes): timestamp (64), interface id (32) [data] | reserved (16) + vendor id (16)
//      [status/vendor], common flags (8): bit0 recalc, bit1 insync, bits2-3 seg, bit4 di_on_if, bit5 overflow,
//      bit6 error in payload, bit7 reserved; payload type (8); payload length (16)
#define LAYOUT_MESSAGE_HEADER(F)                                                                               \
    F(timestamp, uint64_t, getTimestamp(), setTimestamp(v), 0, 8, 0xFFFFFFFFFFFFFFFFULL, 0)                    \
    F(interfaceId, uint32_t, getInterfaceId(), setInterfaceId(v), 8, 4, 0xFFFFFFFF, 0)                         \
    F(vendorId, uint16_t, getVendorId(), setVendorId(v), 10, 2, 0xFFFF, 0)                                     \
    F(commonFlags, uint8_t, getCommonFlags(), setCommonFlags(v), 16, 1, 0xFF, 0)                               \
    F(segmentType, uint8_t, getSegmentType(), setSegmentType(static_cast<ASAM::CMP::MessageHeader::SegmentType>(v)), 16, 1, 0x0C, 0) \
    F(payloadType, uint8_t, getPayloadType(), setPayloadType(v), 17, 1, 0xFF, 0)                               \
    F(payloadLength, uint16_t, getPayloadLength(), setPayloadLength(v), 18, 2, 0xFFFF, 0)
#define SIZE_MESSAGE_HEADER 16

// ---- CAN / CAN-FD data message payload header (16 bytes)
//  flags(16) reserved(16) | ID word: b31 IDE, b30 RTR/RRS, b29 rsvd, b28-0 ID | CRC word: b31 CRC support,
//  CAN: b14-0 CRC; CAN-FD: b30 SBC support, b24 SBC parity, b23-21 SBC, b20-0 CRC | error position(16) DLC(8) data length(8)
#define LAYOUT_CAN_HEADER(F)                                                                                   \
    F(flags, uint16_t, getFlags(), setFlags(v), 0, 2, 0xFFFF, 0)                                               \
    F(id, uint32_t, getId(), setId(v), 4, 4, 0x1FFFFFFF, 0)                                                    \
    F(rsvd, bool, getRsvd(), setRsvd(v), 4, 4, 0x20000000, 29)                                                 \
    F(rtrRrs, bool, getRtrRrs(), setRtrRrs(v), 4, 4, 0x40000000, 30)                                           \
    F(ide, bool, getIde(), setIde(v), 4, 4, 0x80000000, 31)                                                    \
    F(crc, uint16_t, getCrc(), setCrc(v), 8, 4, 0x00007FFF, 0)                                                 \
    F(crcSupport, bool, getCrcSupport(), setCrcSupport(v), 8, 4, 0x80000000, 31)                               \
    F(crcSbc, uint32_t, getCrcSbc(), setCrcSbc(v), 8, 4, 0x001FFFFF, 0)                                        \
    F(sbc, uint8_t, getSbc(), setSbc(v), 8, 4, 0x00E00000, 21)                                                 \
    F(sbcParity, bool, getSbcParity(), setSbcParity(v), 8, 4, 0x01000000, 24)                                  \
    F(sbcSupport, bool, getSbcSupport(), setSbcSupport(v), 8, 4, 0x40000000, 30)                               \
    F(errorPosition, uint16_t, getErrorPosition(), setErrorPosition(v), 12, 2, 0xFFFF, 0)                      \
    F(dlc, uint8_t, getDlc(), setDlc(v), 14, 1, 0xFF, 0)                                                       \
    F(dataLength, uint8_t, getDataLength(), setDataLength(v), 15, 1, 0xFF, 0)
#define SIZE_CAN_HEADER 16

// the CanPayload / CanFdPayload wrappers (fields with a public setter on the payload class)
#define LAYOUT_CAN_PAYLOAD(F)                                                                                  \
    F(flags, uint16_t, getFlags(), setFlags(v), 0, 2, 0xFFFF, 0)                                               \
    F(id, uint32_t, getId(), setId(v), 4, 4, 0x1FFFFFFF, 0)                                                    \
    F(rsvd, bool, getRsvd(), setRsvd(v), 4, 4, 0x20000000, 29)                                                 \
    F(rtr, bool, getRtr(), setRtr(v), 4, 4, 0x40000000, 30)                                                    \
    F(ide, bool, getIde(), setIde(v), 4, 4, 0x80000000, 31)                                                    \
    F(crc, uint16_t, getCrc(), setCrc(v), 8, 4, 0x00007FFF, 0)                                                 \
    F(crcSupport, bool, getCrcSupport(), setCrcSupport(v), 8, 4, 0x80000000, 31)                               \
    F(errorPosition, uint16_t, getErrorPosition(), setErrorPosition(v), 12, 2, 0xFFFF, 0)
#define LAYOUT_CANFD_PAYLOAD(F)                                                                                \
    F(flags, uint16_t, getFlags(), setFlags(v), 0, 2, 0xFFFF, 0)                                               \
    F(id, uint32_t, getId(), setId(v), 4, 4, 0x1FFFFFFF, 0)                                                    \
    F(rsvd, bool, getRsvd(), setRsvd(v), 4, 4, 0x20000000, 29)                                                 \
    F(rrs, bool, getRrs(), setRrs(v), 4, 4, 0x40000000, 30)                                                    \
    F(ide, bool, getIde(), setIde(v), 4, 4, 0x80000000, 31)                                                    \
    F(crc, uint32_t, getCrc(), setCrc(v), 8, 4, 0x001FFFFF, 0)                                                 \
    F(sbc, uint8_t, getSbc(), setSbc(v), 8, 4, 0x00E00000, 21)                                                 \
    F(sbcParity, bool, getSbcParity(), setSbcParity(v), 8, 4, 0x01000000, 24)                                  \
    F(sbcSupport, bool, getSbcSupport(), setSbcSupport(v), 8, 4, 0x40000000, 30)                               \
    F(crcSupport, bool, getCrcSupport(), setCrcSupport(v), 8, 4, 0x80000000, 31)                               \
    F(errorPosition, uint16_t, getErrorPosition(), setErrorPosition(v), 12, 2, 0xFFFF, 0)
